/* Contract-free twin of the lane leaf (seeded change C02-m4): set_cmd_state() is called on the REAL code with a
 * full-domain symbolic index and the lanes are read back in the harness, so the check does not depend on the
 * parameter types of the definition (a contract on a forward declaration cannot be attached once the signature
 * changes).  Loop-free code, full-domain symbolic inputs: complete for capacity 6..MAX_CAP, not a bounded stand-in.
 * Lives outside harness/ so that adding it does not invalidate the result cache of the other jobs; its own
 * content is hashed into the job key ('extra_inputs'). */
#include <stdlib.h>
#include "cat.h"
#include CAT_C
size_t nondet_size(void); unsigned char nondet_uchar(void); _Bool nondet_bool(void);
#ifndef MAX_CAP
#define MAX_CAP 4096
#endif
static struct cat_object s_obj; static struct cat_descriptor s_desc;
#define S_CAP   (s_desc.unsolicited_buf != NULL ? s_desc.buf_size : (s_desc.buf_size >> 1))
#define S_LANE(i) ((uint8_t)((s_desc.buf[(i) >> 2] >> (((i) & 3) << 1)) & 3))

void harness(void)
{
        static uint8_t ub[8];
        size_t size = nondet_size();
        __CPROVER_assume(size >= 6 && size <= 2 * MAX_CAP);
        s_desc.buf = malloc(size);
        __CPROVER_assume(s_desc.buf != NULL);
        s_desc.buf_size = size;
        s_desc.unsolicited_buf = nondet_bool() ? ub : NULL;
        s_desc.unsolicited_buf_size = sizeof(ub);
        __CPROVER_assume(S_CAP <= MAX_CAP);
        s_obj.desc = &s_desc;
        size_t i = nondet_size(), w = nondet_size();
        uint8_t st = nondet_uchar();
        __CPROVER_assume(i < 4 * S_CAP && w < 4 * S_CAP);
        s_obj.commands_num = nondet_size();
        __CPROVER_assume(i < s_obj.commands_num && s_obj.commands_num <= 4 * S_CAP);
        uint8_t w_old = S_LANE(w);
        set_cmd_state(&s_obj, i, st);
        __CPROVER_assert(S_LANE(i) == (st & 3), "[C02:lane-write-plain] the lane of command i holds the state written, any index");
        __CPROVER_assert(w == i || S_LANE(w) == w_old, "[C02:lane-others-plain] no other lane changes, any index");
        __CPROVER_assert(0, "CANARY end of harness reachable");
}
