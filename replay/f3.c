/* F3 / C15: cat_service must not return OK while an event is still queued (needs queue capacity >= 2). */
#include "rt.h"
static int reads;
static cat_return_state rd(const struct cat_command *cmd, uint8_t *d, size_t *n, size_t m) { (void)cmd;(void)d;(void)n;(void)m; reads++; return CAT_RETURN_STATE_DATA_OK; }
static struct cat_command cmds[] = { { .name = "+BAD" }, { .name = "+GOOD", .read = rd } };
static uint8_t buf[64];
static struct cat_command_group g = { .cmd = cmds, .cmd_num = 2 };
static struct cat_command_group *gs[] = { &g };
static struct cat_descriptor desc = { .cmd_group = gs, .cmd_group_num = 1, .buf = buf, .buf_size = sizeof(buf) };
int main(void) {
        struct cat_object at; cat_init(&at, &desc, &rt_io, NULL); rt_reset_out(); rt_feed("", 0);
        if (cat_trigger_unsolicited_read(&at, &cmds[0]) != CAT_STATUS_OK) { printf("SKIP (capacity)\n"); return 0; }
        if (cat_trigger_unsolicited_read(&at, &cmds[1]) != CAT_STATUS_OK) { printf("SKIP: queue capacity < 2, defect cannot manifest\n"); return 0; }
        cat_status s = cat_service(&at);
        int reads_at_ok = reads; size_t out_at_ok = rt_out_len;
        if (s == CAT_STATUS_OK) {
                int n = rt_run(&at, 1000);
                if (reads != reads_at_ok || rt_out_len != out_at_ok) { rt_dump("F3"); printf("FAIL: service returned OK, yet %d more calls did work afterwards (handler calls %d, output %zu bytes)\n", n, reads - reads_at_ok, rt_out_len - out_at_ok); return 1; }
        }
        printf("PASS\n"); return 0;
}
