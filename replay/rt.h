/* Native replay support: feeds an input byte string to the real library (compiled from
 * /repo/src/cat.c into the same translation unit by the replay program), captures output,
 * logs handler calls.  Used by the R1 (API) replays. */
#ifndef RT_H
#define RT_H
#include <stdio.h>
#include <string.h>
#include <stdlib.h>
#include "cat.h"

static const char *rt_in; static size_t rt_in_len, rt_in_pos;
static char rt_out[65536]; static size_t rt_out_len;
static char rt_log[65536];

static int rt_write(char ch) { if (rt_out_len < sizeof(rt_out) - 1) rt_out[rt_out_len++] = ch; rt_out[rt_out_len] = 0; return 1; }
static int rt_read(char *ch) { if (rt_in_pos >= rt_in_len) return 0; *ch = rt_in[rt_in_pos++]; return 1; }
static struct cat_io_interface rt_io = { .write = rt_write, .read = rt_read };

static void rt_feed(const char *s, size_t n) { rt_in = s; rt_in_len = n; rt_in_pos = 0; }
static void rt_reset_out(void) { rt_out_len = 0; rt_out[0] = 0; rt_log[0] = 0; }
static int rt_run(struct cat_object *at, int max) { int n = 0; while (n < max && cat_service(at) != CAT_STATUS_OK) n++; return n; }
/* count occurrences of needle in the captured output */
static int rt_count(const char *needle) { int c = 0; const char *p = rt_out; while ((p = strstr(p, needle)) != NULL) { c++; p += strlen(needle); } return c; }
static void rt_dump(const char *title) {
        size_t i; printf("%s: out=\"", title);
        for (i = 0; i < rt_out_len; i++) { unsigned char c = rt_out[i]; if (c == '\n') printf("\\n"); else if (c == '\r') printf("\\r"); else if (c < 32 || c > 126) printf("\\x%02x", c); else putchar(c); }
        printf("\" log=\"%s\"\n", rt_log);
}
#endif
