/* F5 / C19: the command list must not advertise commands of a disabled group. */
#include "rt.h"
static cat_return_state run(const struct cat_command *cmd) { (void)cmd; return CAT_RETURN_STATE_OK; }
static cat_return_state help(const struct cat_command *cmd) { (void)cmd; return CAT_RETURN_STATE_PRINT_CMD_LIST_OK; }
static struct cat_command c1[] = { { .name = "#HELP", .run = help } };
static struct cat_command c2[] = { { .name = "+HIDDEN", .run = run } };
static uint8_t buf[64];
static struct cat_command_group g1 = { .cmd = c1, .cmd_num = 1 }, g2 = { .cmd = c2, .cmd_num = 1, .disable = true };
static struct cat_command_group *gs[] = { &g1, &g2 };
static struct cat_descriptor desc = { .cmd_group = gs, .cmd_group_num = 2, .buf = buf, .buf_size = sizeof(buf) };
int main(void) {
        struct cat_object at; const char *line = "AT#HELP\n"; cat_init(&at, &desc, &rt_io, NULL); rt_reset_out(); rt_feed(line, strlen(line)); rt_run(&at, 100000);
        rt_dump("F5");
        if (rt_count("HIDDEN") != 0) { printf("FAIL: command of a disabled group is listed\n"); return 1; }
        if (rt_count("AT#HELP") != 1 || rt_count("OK") != 1) { printf("FAIL: list incomplete\n"); return 1; }
        printf("PASS\n"); return 0;
}
