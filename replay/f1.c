/* F1 / C01: ambiguous abbreviation followed by '=': one line must get exactly one result code
 * and the argument text must not be re-interpreted as a command. */
#include "rt.h"
static int ran_z;
static cat_return_state z_run(const struct cat_command *cmd) { (void)cmd; ran_z++; strcat(rt_log, "Z;"); return CAT_RETURN_STATE_OK; }
static cat_return_state w(const struct cat_command *cmd, const uint8_t *d, size_t n, size_t a) { (void)cmd;(void)d;(void)n;(void)a; strcat(rt_log, "W;"); return CAT_RETURN_STATE_OK; }
static struct cat_command cmds[] = { { .name = "+TA", .write = w }, { .name = "+TB", .write = w }, { .name = "Z", .run = z_run } };
static uint8_t buf[64];
static struct cat_command_group g = { .cmd = cmds, .cmd_num = 3 };
static struct cat_command_group *gs[] = { &g };
static struct cat_descriptor desc = { .cmd_group = gs, .cmd_group_num = 1, .buf = buf, .buf_size = sizeof(buf) };
int main(void) {
        struct cat_object at; const char *line = "AT+T=ATZ\n";
        cat_init(&at, &desc, &rt_io, NULL); rt_reset_out(); rt_feed(line, strlen(line)); rt_run(&at, 10000);
        rt_dump("F1");
        int codes = rt_count("OK") + rt_count("ERROR");
        if (codes != 1 || ran_z != 0) { printf("FAIL: %d result codes, Z ran %d times (expected 1 code, 0 runs)\n", codes, ran_z); return 1; }
        printf("PASS\n"); return 0;
}
