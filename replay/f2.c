/* F2 / C04: numeric arguments whose mathematical value does not fit must be rejected,
 * however many digits they have. */
#include "rt.h"
static uint8_t u8; static int8_t i8; static uint8_t h8; static uint32_t u32; static int32_t i32;
static struct cat_variable vu[] = { { .type = CAT_VAR_UINT_DEC, .data = &u8, .data_size = 1 } };
static struct cat_variable vi[] = { { .type = CAT_VAR_INT_DEC, .data = &i8, .data_size = 1 } };
static struct cat_variable vh[] = { { .type = CAT_VAR_NUM_HEX, .data = &h8, .data_size = 1 } };
static struct cat_variable vu32[] = { { .type = CAT_VAR_UINT_DEC, .data = &u32, .data_size = 4 } };
static struct cat_variable vi32[] = { { .type = CAT_VAR_INT_DEC, .data = &i32, .data_size = 4 } };
static struct cat_command cmds[] = { { .name = "+U", .var = vu, .var_num = 1 }, { .name = "+I", .var = vi, .var_num = 1 }, { .name = "+H", .var = vh, .var_num = 1 },
        { .name = "+W", .var = vu32, .var_num = 1 }, { .name = "+J", .var = vi32, .var_num = 1 } };
static uint8_t buf[128];
static struct cat_command_group g = { .cmd = cmds, .cmd_num = 5 };
static struct cat_command_group *gs[] = { &g };
static struct cat_descriptor desc = { .cmd_group = gs, .cmd_group_num = 1, .buf = buf, .buf_size = sizeof(buf) };
static int one(const char *line, int expect_ok) {
        struct cat_object at; cat_init(&at, &desc, &rt_io, NULL); rt_reset_out(); rt_feed(line, strlen(line)); rt_run(&at, 100000);
        int ok = rt_count("OK"), er = rt_count("ERROR");
        printf("%-40.*s -> OK=%d ERROR=%d u8=%u i8=%d h8=%u u32=%u i32=%d\n", (int)strlen(line) - 1, line, ok, er, u8, i8, h8, u32, i32);
        return (expect_ok ? (ok == 1 && er == 0) : (ok == 0 && er == 1)) ? 0 : 1;
}
int main(void) {
        int bad = 0;
        u8 = 77; i8 = 77; h8 = 77; u32 = 77; i32 = 77;
        bad += one("AT+U=18446744073709551621\n", 0); bad += (u8 != 77);
        bad += one("AT+H=0x10000000000000005\n", 0); bad += (h8 != 77);
        bad += one("AT+I=18446744073709551621\n", 0); bad += (i8 != 77);
        bad += one("AT+W=18446744073709551621\n", 0); bad += (u32 != 77);
        bad += one("AT+J=-18446744073709551611\n", 0); bad += (i32 != 77);
        bad += one("AT+W=000000000000000000004294967295\n", 1); bad += (u32 != 4294967295u);
        bad += one("AT+J=-000000000000000000002147483648\n", 1); bad += (i32 != (-2147483647 - 1));
        bad += one("AT+W=4294967296\n", 0); bad += one("AT+J=2147483648\n", 0); bad += one("AT+J=-2147483649\n", 0);
        if (bad) { printf("FAIL (%d)\n", bad); return 1; }
        printf("PASS\n"); return 0;
}
