/* F6 / C04,C05: an argument text with an embedded NUL does not match any variable grammar. */
#include "rt.h"
static uint8_t u8 = 77; static uint8_t hb[4] = { 1, 2, 3, 4 };
static struct cat_variable vu[] = { { .type = CAT_VAR_UINT_DEC, .data = &u8, .data_size = 1 } };
static struct cat_variable vb[] = { { .type = CAT_VAR_BUF_HEX, .data = hb, .data_size = 4 } };
static struct cat_command cmds[] = { { .name = "+U", .var = vu, .var_num = 1 }, { .name = "+B", .var = vb, .var_num = 1 } };
static uint8_t buf[64];
static struct cat_command_group g = { .cmd = cmds, .cmd_num = 2 };
static struct cat_command_group *gs[] = { &g };
static struct cat_descriptor desc = { .cmd_group = gs, .cmd_group_num = 1, .buf = buf, .buf_size = sizeof(buf) };
int main(void) {
        struct cat_object at; int bad = 0;
        static const char l1[] = "AT+U=9\0zz\n"; static const char l2[] = "AT+B=AB\0,,\n";
        cat_init(&at, &desc, &rt_io, NULL); rt_reset_out(); rt_feed(l1, sizeof(l1) - 1); rt_run(&at, 100000); rt_dump("F6a");
        if (rt_count("ERROR") != 1 || u8 != 77) { printf("line 'AT+U=9\\0zz' accepted: u8=%u\n", u8); bad = 1; }
        cat_init(&at, &desc, &rt_io, NULL); rt_reset_out(); rt_feed(l2, sizeof(l2) - 1); rt_run(&at, 100000); rt_dump("F6b");
        if (rt_count("ERROR") != 1 || hb[0] != 1) { printf("line 'AT+B=AB\\0,,' accepted: hb[0]=%u\n", hb[0]); bad = 1; }
        if (bad) { printf("FAIL\n"); return 1; }
        printf("PASS\n"); return 0;
}
