/* F4 / C18: cat_is_busy must not report OK while an unsolicited line is partially emitted. */
#include "rt.h"
static cat_return_state rd(const struct cat_command *cmd, uint8_t *d, size_t *n, size_t m) { (void)cmd;(void)d;(void)n;(void)m; return CAT_RETURN_STATE_DATA_OK; }
static struct cat_command cmds[] = { { .name = "+EV", .read = rd } };
static uint8_t buf[64];
static struct cat_command_group g = { .cmd = cmds, .cmd_num = 1 };
static struct cat_command_group *gs[] = { &g };
static struct cat_descriptor desc = { .cmd_group = gs, .cmd_group_num = 1, .buf = buf, .buf_size = sizeof(buf) };
int main(void) {
        struct cat_object at; int i, bad = 0; cat_init(&at, &desc, &rt_io, NULL); rt_reset_out(); rt_feed("", 0);
        cat_trigger_unsolicited_read(&at, &cmds[0]);
        for (i = 0; i < 100; i++) {
                cat_status s = cat_service(&at);
                /* a unit is partial if some but not all of "\n+EV=\n" is out */
                int partial = (rt_out_len > 0 && rt_out_len < strlen("\n+EV=\n"));
                if (partial && cat_is_busy(&at) == CAT_STATUS_OK) { printf("after service call %d: %zu of 6 bytes of the event line emitted, cat_is_busy()==OK\n", i, rt_out_len); bad = 1; break; }
                if (s == CAT_STATUS_OK) break;
        }
        if (bad) { printf("FAIL\n"); return 1; }
        printf("PASS\n"); return 0;
}
