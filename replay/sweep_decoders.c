/* Native sweep of the argument-decoder input class against an oracle written from the statements of
 * C04/C05/C08: every text of length 0..4 over an alphabet that contains every character class the
 * grammars distinguish, plus long numerals around every width boundary, for every variable type,
 * width and access mode, through the real API (AT+V=<text>\n).  Exit 1 and the first failing inputs
 * are printed when the library disagrees with the oracle.  Used as the replay of decoder / validator
 * obligations: it searches the obligation's input class for a concrete failing input. */
#include "rt.h"

typedef unsigned __int128 u128;
static const unsigned char ALPHA[] = { '0', '1', '7', '9', 'a', 'F', 'g', 'G', 'x', 'X', '+', '-', '"', '\\', 'n', ' ', ':', '@', '/', '`', 0x00, 0x80 };
#define NALPHA (sizeof(ALPHA))

static uint8_t vdata[64 + 4]; /* 4 guard bytes behind the largest data_size used */
static int wcalls; static size_t wsize;
static int var_w(const struct cat_variable *v, size_t n) { (void)v; wcalls++; wsize = n; return 0; }
static int hcalls;
static cat_return_state cmd_w(const struct cat_command *c, const uint8_t *d, size_t n, size_t a) { (void)c; (void)d; (void)n; (void)a; hcalls++; return CAT_RETURN_STATE_OK; }
static uint8_t second;
static struct cat_variable var[2];
static struct cat_command cmds[1] = { { .name = "+V", .write = cmd_w, .var = var, .var_num = 1 } };
static uint8_t wbuf[1024];
static struct cat_command_group g = { .cmd = cmds, .cmd_num = 1 };
static struct cat_command_group *gs[] = { &g };
static struct cat_descriptor desc = { .cmd_group = gs, .cmd_group_num = 1, .buf = wbuf, .buf_size = sizeof(wbuf) };

static int isdig(unsigned char c) { return c >= '0' && c <= '9'; }
static int ishex(unsigned char c) { return isdig(c) || (c >= 'a' && c <= 'f') || (c >= 'A' && c <= 'F'); }
static int hexv(unsigned char c) { return isdig(c) ? c - '0' : (c >= 'a' ? c - 'a' + 10 : c - 'A' + 10); }

/* oracle: returns 1 if the text is a valid argument for (type, ds) and writes the bytes the variable must hold to out[0..ds) */
static int oracle(cat_var_type type, size_t ds, const unsigned char *t, size_t n, uint8_t *out, size_t *wsz)
{
        size_t i = 0, k;
        for (k = 0; k < n; k++) if (t[k] == 0) return 0;
        switch (type) {
        case CAT_VAR_INT_DEC: case CAT_VAR_UINT_DEC: case CAT_VAR_NUM_HEX: {
                int neg = 0; u128 mag = 0; const u128 SAT = ((u128)1) << 100;
                int unsupported = !(ds == 1 || ds == 2 || ds == 4);
                if (type == CAT_VAR_INT_DEC && i < n && (t[i] == '+' || t[i] == '-')) { neg = (t[i] == '-'); i++; }
                if (type == CAT_VAR_NUM_HEX) { if (!(n >= 3 && t[0] == '0' && (t[1] == 'x' || t[1] == 'X'))) return 0; i = 2; }
                if (i >= n) return 0;
                for (; i < n; i++) {
                        if (type == CAT_VAR_NUM_HEX) { if (!ishex(t[i])) return 0; mag = mag * 16 + hexv(t[i]); }
                        else { if (!isdig(t[i])) return 0; mag = mag * 10 + (t[i] - '0'); }
                        if (mag > SAT) mag = SAT;
                }
                if (unsupported) return -1;
                if (type == CAT_VAR_INT_DEC) {
                        u128 lim = ((u128)1) << (8 * ds - 1);
                        if (neg ? mag > lim : mag > lim - 1) return -1; /* well-formed, out of range */
                        long long v = neg ? -(long long)mag : (long long)mag;
                        memcpy(out, &v, ds);
                } else {
                        u128 lim = (((u128)1) << (8 * ds)) - 1;
                        if (mag > lim) return -1;
                        unsigned long long v = (unsigned long long)mag;
                        memcpy(out, &v, ds);
                }
                *wsz = ds; return 1; }
        case CAT_VAR_BUF_HEX:
                if (n == 0 || (n % 2) != 0 || n / 2 > ds) return 0;
                for (k = 0; k < n; k++) if (!ishex(t[k])) return 0;
                for (k = 0; k < n / 2; k++) out[k] = (uint8_t)(hexv(t[2 * k]) * 16 + hexv(t[2 * k + 1]));
                *wsz = n / 2; return 2; /* 2: only the first *wsz bytes are prescribed */
        case CAT_VAR_BUF_STRING: {
                size_t m = 0;
                if (n < 2 || t[0] != '"' || t[n - 1] != '"') return 0;
                for (k = 1; k + 1 < n; k++) {
                        unsigned char c = t[k];
                        if (c == '"') return 0;
                        if (c == '\\') { if (k + 2 >= n) return 0; k++; c = t[k]; if (c == 'n') c = '\n'; else if (c != '\\' && c != '"') return 0; }
                        if (m >= ds) return 0;
                        out[m++] = c;
                }
                if (m + 1 > ds) return 0;
                out[m] = 0; *wsz = m; return 3; /* 3: first m+1 bytes prescribed */ }
        default: return 0;
        }
}

static long runs, bad;
static void show(const unsigned char *t, size_t n) { size_t i; for (i = 0; i < n; i++) { if (t[i] >= 32 && t[i] < 127 && t[i] != '\\') putchar(t[i]); else printf("\\x%02x", t[i]); } }

static void one(cat_var_type type, size_t ds, cat_var_access acc, const unsigned char *t, size_t n)
{
        static char line[512]; struct cat_object at; uint8_t before[68], want[68]; size_t wsz = 0, ll = 0, i;
        memcpy(line, "AT+V=", 5); ll = 5; memcpy(line + ll, t, n); ll += n;
        /* a read-only variable is only parsed when the command also offers something writable: add a second, writable one */
        if (acc == CAT_VAR_ACCESS_READ_ONLY) { line[ll++] = ','; line[ll++] = '1'; cmds[0].var_num = 2; var[1].type = CAT_VAR_UINT_DEC; var[1].data = &second; var[1].data_size = 1; var[1].access = CAT_VAR_ACCESS_READ_WRITE; var[1].write = NULL; } else cmds[0].var_num = 1;
        line[ll++] = '\n';
        for (i = 0; i < sizeof(vdata); i++) vdata[i] = (uint8_t)(0xA5 ^ (i * 17));
        memcpy(before, vdata, sizeof(vdata));
        var[0].type = type; var[0].data = vdata; var[0].data_size = ds; var[0].access = acc; var[0].write = var_w;
        wcalls = 0; hcalls = 0; wsize = 0;
        cat_init(&at, &desc, &rt_io, NULL); rt_reset_out(); rt_feed(line, ll); rt_run(&at, 100000);
        memcpy(want, before, sizeof(want));
        int ok = oracle(type, ds, t, n, want, &wsz);
        /* range and width are only prescribed for variables that are not read-only (C04); for a read-only one only 'never modified' (C08) */
        if (ok < 0 && acc == CAT_VAR_ACCESS_READ_ONLY) { runs++; if (memcmp(vdata, before, sizeof(vdata)) != 0) { bad++; printf("FAIL read-only variable modified\n"); } return; }
        if (ok < 0) ok = 0;
        int got_ok = (strcmp(rt_out, "\nOK\n") == 0), got_err = (strcmp(rt_out, "\nERROR\n") == 0);
        int fail = 0; const char *why = "";
        runs++;
        if (ok && acc != CAT_VAR_ACCESS_READ_ONLY) {
                size_t pres = (ok == 1) ? ds : (ok == 2) ? wsz : wsz + 1;
                if (!got_ok) { fail = 1; why = "valid argument not answered OK"; }
                else if (memcmp(vdata, want, pres) != 0) { fail = 1; why = "stored bytes differ from the decoded value"; }
                else if (memcmp(vdata + ds, before + ds, sizeof(vdata) - ds) != 0) { fail = 1; why = "bytes at or beyond data_size modified"; }
                else if (wcalls != 1 || wsize != wsz) { fail = 1; why = "variable write callback not told the decoded length"; }
                else if (hcalls != 1) { fail = 1; why = "write handler not invoked exactly once"; }
        } else if (ok) { /* read-only: accepted syntactically, never modified */
                if (memcmp(vdata, before, sizeof(vdata)) != 0) { fail = 1; why = "read-only variable modified"; }
                else if (!got_ok) { fail = 1; why = "valid argument for a read-only variable not answered OK"; }
        } else {
                if (!got_err) { fail = 1; why = "invalid argument not answered ERROR"; }
                else if (hcalls != 0) { fail = 1; why = "write handler invoked although the argument is invalid"; }
                else if (memcmp(vdata + ds, before + ds, sizeof(vdata) - ds) != 0) { fail = 1; why = "bytes at or beyond data_size modified"; }
                else if (type <= CAT_VAR_NUM_HEX && memcmp(vdata, before, ds) != 0) { fail = 1; why = "numeric variable changed although the argument is invalid"; }
                else if (acc == CAT_VAR_ACCESS_READ_ONLY && memcmp(vdata, before, sizeof(vdata)) != 0) { fail = 1; why = "read-only variable modified"; }
        }
        if (fail) {
                if (bad < 12) { printf("FAIL type=%d data_size=%zu access=%d text=\"", type, ds, acc); show(t, n); printf("\": %s (output \"", why); show((unsigned char *)rt_out, rt_out_len); printf("\")\n"); }
                bad++;
        }
}

static void all_short(cat_var_type type, size_t ds, cat_var_access acc, int maxlen)
{
        unsigned char t[8]; int len; size_t idx[8];
        for (len = 0; len <= maxlen; len++) {
                int i; for (i = 0; i < len; i++) idx[i] = 0;
                for (;;) {
                        int ok = 1;
                        for (i = 0; i < len; i++) { t[i] = ALPHA[idx[i]]; if (t[i] == '\n' || t[i] == '\r') ok = 0; }
                        if (ok) one(type, ds, acc, t, (size_t)len);
                        for (i = len - 1; i >= 0; i--) { if (++idx[i] < NALPHA) break; idx[i] = 0; }
                        if (i < 0) break;
                }
        }
}

int main(int argc, char **argv)
{
        static const char *longs[] = { "127", "128", "-128", "-129", "255", "256", "32767", "32768", "-32768", "-32769", "65535", "65536",
                "2147483647", "2147483648", "-2147483648", "-2147483649", "4294967295", "4294967296", "9223372036854775807", "9223372036854775808",
                "-9223372036854775808", "-9223372036854775809", "18446744073709551615", "18446744073709551616", "18446744073709551621", "18446744073709551743",
                "-18446744073709551611", "184467440737095516160", "000000000000000000000000000255", "-00000000000000000000000000128", "+0000000000000000000000042",
                "0x7F", "0xff", "0X100", "0xFFFF", "0x10000", "0xFFFFFFFF", "0x100000000", "0x10000000000000005", "0x0000000000000000000000AB", "0x", "0xG", "5000000000", "9999999999",
                "4294967301", "42949672960", "+", "-", "+-1", "1-", "0x-1", "1x0", "00", "-0", "+0" };
        int maxlen = (argc > 1) ? atoi(argv[1]) : 4;
        cat_var_type ty; size_t k; int acc; size_t sizes_num[] = { 1, 2, 4, 3 }, sizes_buf[] = { 1, 2, 3 }, sizes_str[] = { 1, 2, 3, 4 };
        for (acc = 0; acc <= 2; acc++) {
                for (ty = CAT_VAR_INT_DEC; ty <= CAT_VAR_NUM_HEX; ty++)
                        for (k = 0; k < 4; k++) {
                                size_t j;
                                all_short(ty, sizes_num[k], (cat_var_access)acc, acc == 0 ? maxlen : 3);
                                for (j = 0; j < sizeof(longs) / sizeof(longs[0]); j++) one(ty, sizes_num[k], (cat_var_access)acc, (const unsigned char *)longs[j], strlen(longs[j]));
                        }
                for (k = 0; k < 3; k++) all_short(CAT_VAR_BUF_HEX, sizes_buf[k], (cat_var_access)acc, acc == 0 ? maxlen : 3);
                for (k = 0; k < 4; k++) all_short(CAT_VAR_BUF_STRING, sizes_str[k], (cat_var_access)acc, acc == 0 ? maxlen + 1 : 4);
        }
        /* strings whose decoded length is data_size-1, data_size, data_size+1 through plain and escaped characters, data_size up to 64 */
        { size_t ds; for (ds = 1; ds <= 64; ds++) { int d, esc; for (d = -1; d <= 1; d++) for (esc = 0; esc <= 2; esc++) {
                unsigned char t[160]; size_t n = 0, m, want = (size_t)((long)ds + d); if ((long)ds + d < 0) continue;
                t[n++] = '"'; for (m = 0; m < want; m++) { if (esc == 2 || (esc == 1 && m + 1 == want)) { t[n++] = '\\'; t[n++] = "n\"\\"[m % 3]; } else t[n++] = (unsigned char)('a' + m % 26); } t[n++] = '"';
                one(CAT_VAR_BUF_STRING, ds, CAT_VAR_ACCESS_READ_WRITE, t, n); } } }
        { size_t ds; for (ds = 1; ds <= 64; ds++) { int d; for (d = -1; d <= 1; d++) { unsigned char t[160]; size_t n = 0, m, want = (size_t)((long)ds + d);
                for (m = 0; m < want; m++) { t[n++] = "0123456789abcdefABCDEF"[(m * 7) % 22]; t[n++] = "0123456789abcdefABCDEF"[(m * 5 + 3) % 22]; }
                one(CAT_VAR_BUF_HEX, ds, CAT_VAR_ACCESS_READ_WRITE, t, n); t[n++] = 'A'; one(CAT_VAR_BUF_HEX, ds, CAT_VAR_ACCESS_READ_WRITE, t, n); } } }
        printf("%ld runs, %ld disagreements with the oracle\n", runs, bad);
        if (bad) { printf("FAIL\n"); return 1; }
        printf("PASS\n"); return 0;
}
