/* Text-level specification of the TEST response and of command-list lines (C19), written from the
 * property statement: <name:TYPE[access]> with TYPE derived from type and width. */
#ifndef CAT_VERIF_SPEC_TEXT_H
#define CAT_VERIF_SPEC_TEXT_H
#ifndef X_MAXTXT
#define X_MAXTXT 96
#endif

static size_t x_put(char *out, size_t n, const char *s, size_t maxlen)
{
        size_t i;
        for (i = 0; i < maxlen; i++) {
                if (s[i] == 0)
                        break;
                if (n < X_MAXTXT)
                        out[n] = s[i];
                n++;
        }
        return n;
}

/* TYPE token of a variable; returns 0 when the statement defines none (unsupported width) */
static const char *x_type_name(const struct cat_variable *v)
{
        switch (v->type) {
        case CAT_VAR_INT_DEC: return v->data_size == 1 ? "INT8" : v->data_size == 2 ? "INT16" : v->data_size == 4 ? "INT32" : 0;
        case CAT_VAR_UINT_DEC: return v->data_size == 1 ? "UINT8" : v->data_size == 2 ? "UINT16" : v->data_size == 4 ? "UINT32" : 0;
        case CAT_VAR_NUM_HEX: return v->data_size == 1 ? "HEX8" : v->data_size == 2 ? "HEX16" : v->data_size == 4 ? "HEX32" : 0;
        case CAT_VAR_BUF_HEX: return "HEXBUF";
        case CAT_VAR_BUF_STRING: return "STRING";
        default: return 0;
        }
}

static const char *x_access_name(const struct cat_variable *v)
{
        return v->access == CAT_VAR_ACCESS_READ_WRITE ? "RW" : v->access == CAT_VAR_ACCESS_READ_ONLY ? "RO" : "WO";
}

/* appends the token of v at out[n..]; returns the new length, or (size_t)-1 if v has no token */
static size_t x_token(char *out, size_t n, const struct cat_variable *v, size_t maxname)
{
        const char *t = x_type_name(v);
        if (t == 0)
                return (size_t)-1;
        n = x_put(out, n, "<", 1);
        if (v->name != NULL) {
                n = x_put(out, n, v->name, maxname);
                n = x_put(out, n, ":", 1);
        }
        n = x_put(out, n, t, 6);
        n = x_put(out, n, "[", 1);
        n = x_put(out, n, x_access_name(v), 2);
        n = x_put(out, n, "]>", 2);
        return n;
}

/* text t[0..n) equals the first n characters of out and is NUL-terminated at n */
static _Bool x_text_is(const char *t, size_t cap, const char *out, size_t n)
{
        size_t i;
        if (n >= cap || n >= X_MAXTXT)
                return 0;
        for (i = 0; i < X_MAXTXT; i++)
                if (i < n && t[i] != out[i])
                        return 0;
        return t[n] == 0;
}
#endif
