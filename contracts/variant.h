/* C15, liveness half: a variant (ranking function) PHI over the whole object, linear in the table
 * size, the number of variables and the buffer capacities.  Under a fair environment (lock and unlock
 * succeed, a refused read stays refused = input exhausted, every write accepted, handlers return
 * terminal codes, no re-entrant trigger) every call that returns BUSY strictly decreases
 * PHI = PHI_EV + PHI_AT, and PHI == 0 is the quiescent state in which the call returns OK.
 * The bound PHI is therefore an upper bound on the number of BUSY calls; that a strictly decreasing
 * natural number reaches 0 is the (well-foundedness) meta-argument.  HOLD is excluded: waiting for
 * a release is waiting for stimulus.  Written from the property statement and the cost of each unit
 * (newline, payload, newline = at most 3 + capacity + 3 steps), not from the code. */
#ifndef CAT_VERIF_VARIANT_H
#define CAT_VERIF_VARIANT_H

static size_t v_strlen(const char *b, size_t from, size_t cap)
{
        size_t i, n = 0;
        for (i = 0; i < H_MAXBUF; i++)
                if (i >= from && i < cap) {
                        if (b[i] == 0)
                                return n;
                        n++;
                }
        return n;
}

/* steps a machine in FLUSH_IO_WRITE still needs before it moves to its continuation */
static size_t v_flush_rem(const char *write_buf, int write_state, size_t position, const char *half, size_t cap)
{
        size_t cur;
        if (write_buf == half)
                cur = v_strlen(half, position, cap) + 1;
        else if (write_buf == &h_crlf[0])
                cur = (position <= 2 ? 2 - position : 0) + 1;
        else
                cur = (position <= 1 ? 1 - position : 0) + 1;
        if (write_state == V_WS_BEFORE)
                return cur + (v_strlen(half, 0, cap) + 1) + 3;
        if (write_state == V_WS_MAIN)
                return cur + 3;
        return cur;
}

#define V_UNIT_U   (1 + 3 + H_CAPU + 3)                 /* wait + newline + payload + newline, event half */
#define V_LOOP_U   (1 + V_UNIT_U + 1)                   /* handler step, one unit, after-flush step */
#define V_FMT_U    (H_NV + V_LOOP_U)
#define V_EVENT    (1 + V_FMT_U)                        /* one queued event, from the pop to idle */

static size_t v_phi_ev_state(const struct cat_object *s)
{
        const struct cat_command *c = p_norm_cmd(UF(s).cmd);
        size_t after;
        switch (UST(s)) {
        case CAT_UNSOLICITED_STATE_IDLE:
                return 0;
        case CAT_UNSOLICITED_STATE_FORMAT_READ_ARGS:
        case CAT_UNSOLICITED_STATE_FORMAT_TEST_ARGS:
                return ((c != NULL && UF(s).index < c->var_num && c->var_num <= H_NV) ? c->var_num - UF(s).index : 0) + V_LOOP_U;
        case CAT_UNSOLICITED_STATE_READ_LOOP:
        case CAT_UNSOLICITED_STATE_TEST_LOOP:
                return V_LOOP_U;
        case CAT_UNSOLICITED_STATE_FLUSH_IO_WRITE_WAIT:
        case CAT_UNSOLICITED_STATE_FLUSH_IO_WRITE:
                after = (UF(s).write_state_after == CAT_UNSOLICITED_STATE_AFTER_FLUSH_OK || UF(s).write_state_after == CAT_UNSOLICITED_STATE_AFTER_FLUSH_RESET) ? 1 : 1 + V_FMT_U;
                return (UST(s) == CAT_UNSOLICITED_STATE_FLUSH_IO_WRITE_WAIT ? 1 : 0) + v_flush_rem(UF(s).write_buf, UF(s).write_state, UF(s).position, UBUFP, H_CAPU) + after;
        case CAT_UNSOLICITED_STATE_AFTER_FLUSH_RESET:
        case CAT_UNSOLICITED_STATE_AFTER_FLUSH_OK:
                return 1;
        default:
                return 1 + V_FMT_U;
        }
}

static size_t v_phi_ev(const struct cat_object *s)
{
        return UF(s).unsolicited_cmd_buffer_items_count * V_EVENT + v_phi_ev_state(s);
}

#define V_UNIT_A   (1 + 3 + H_CAPA + 3)
#define V_ACK      (V_UNIT_A + 1)                       /* result-code unit, then the reset step */
#define V_LISTCMD  (6 + 4 * (1 + H_CAPA))               /* one command of the list: six list steps, at most four raw lines */
#define V_LIST0    (H_NC * V_LISTCMD + V_ACK)
#define V_RL       (1 + V_UNIT_A + 1 + V_ACK)           /* read handler step, data unit, after-flush step, result code */
#define V_TL       (1 + ((V_UNIT_A + 1 + V_ACK) > V_LIST0 ? (V_UNIT_A + 1 + V_ACK) : V_LIST0))
#define V_RUNL     (1 + V_LIST0)
#define V_MAX3(a, b, c) ((a) > (b) ? ((a) > (c) ? (a) : (c)) : ((b) > (c) ? (b) : (c)))
#define V_CF       (1 + V_MAX3(V_RUNL, H_NV + V_RL, V_ACK))

static size_t v_phi_list(size_t index, cat_cmd_type t, size_t ncmds)
{
        size_t r, u, rest;
        switch (t) {
        case CAT_CMD_TYPE_NONE: r = 6; u = 4; break;
        case CAT_CMD_TYPE_RUN: r = 5; u = 4; break;
        case CAT_CMD_TYPE_READ: r = 4; u = 3; break;
        case CAT_CMD_TYPE_WRITE: r = 3; u = 2; break;
        case CAT_CMD_TYPE_TEST: r = 2; u = 1; break;
        default: r = 1; u = 0; break;
        }
        rest = (index < ncmds && ncmds <= H_NC) ? (ncmds - index - 1) : 0;
        return r + u * (1 + H_CAPA) + rest * V_LISTCMD + V_ACK;
}

static size_t v_phi_at_after(const struct cat_object *s, cat_state t)
{
        switch (t) {
        case CAT_STATE_AFTER_FLUSH_RESET: return 1;
        case CAT_STATE_AFTER_FLUSH_OK: return 1 + V_ACK;
        case CAT_STATE_AFTER_FLUSH_FORMAT_READ_ARGS: return 1 + H_NV + V_RL;
        case CAT_STATE_AFTER_FLUSH_FORMAT_TEST_ARGS: return 1 + H_NV + V_TL;
        case CAT_STATE_PRINT_CMD: return v_phi_list(s->index, s->cmd_type, g_ncmds);
        default: return 0;
        }
}

static size_t v_vars_left(const struct cat_object *s)
{
        const struct cat_command *c = s->cmd;
        return (c != NULL && s->index < c->var_num && c->var_num <= H_NV) ? c->var_num - s->index : 0;
}

static size_t v_phi_at(const struct cat_object *s)
{
        size_t left = (s->index < g_ncmds && g_ncmds <= H_NC) ? g_ncmds - s->index : 0;
        switch (ST(s)) {
        case CAT_STATE_UPDATE_COMMAND_STATE: return left + H_NC + V_CF;
        case CAT_STATE_SEARCH_COMMAND: return left + V_CF;
        case CAT_STATE_COMMAND_FOUND: return V_CF;
        case CAT_STATE_COMMAND_NOT_FOUND: return 1 + V_ACK;
        case CAT_STATE_PARSE_WRITE_ARGS: return v_vars_left(s) + 1 + V_ACK;
        case CAT_STATE_FORMAT_READ_ARGS: return v_vars_left(s) + V_RL;
        case CAT_STATE_FORMAT_TEST_ARGS: return v_vars_left(s) + V_TL;
        case CAT_STATE_WRITE_LOOP: return 1 + V_ACK;
        case CAT_STATE_READ_LOOP: return V_RL;
        case CAT_STATE_TEST_LOOP: return V_TL;
        case CAT_STATE_RUN_LOOP: return V_RUNL;
        case CAT_STATE_FLUSH_IO_WRITE_WAIT:
        case CAT_STATE_FLUSH_IO_WRITE:
                return (ST(s) == CAT_STATE_FLUSH_IO_WRITE_WAIT ? 1 : 0) + v_flush_rem(s->write_buf, s->write_state, s->position, ABUFP, H_CAPA) + v_phi_at_after(s, s->write_state_after);
        case CAT_STATE_AFTER_FLUSH_RESET:
        case CAT_STATE_AFTER_FLUSH_OK:
        case CAT_STATE_AFTER_FLUSH_FORMAT_READ_ARGS:
        case CAT_STATE_AFTER_FLUSH_FORMAT_TEST_ARGS:
        case CAT_STATE_PRINT_CMD:
                return v_phi_at_after(s, ST(s));
        default:
                return 0;     /* reading states (input exhausted: nothing to do) and HOLD (waiting for stimulus) */
        }
}

/* a handler return code after which the handler is not invoked again for the same request and the command is not suspended */
static _Bool v_terminal(int r)
{
        return r != CAT_RETURN_STATE_NEXT && r != CAT_RETURN_STATE_DATA_NEXT && r != CAT_RETURN_STATE_HOLD;
}

#endif
