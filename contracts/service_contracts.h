/* Step contracts: cat_service (one step of both machines) and unsolicited_events_service (one step of
 * the event machine).  Written against the public struct and the ghost log of harness/l1_env.h.
 * g_old is the harness' snapshot of the object at the call; E the environment log; G_EV the log as
 * it stood when the event machine's step was over (definitional ghost, see below). */
#ifndef CAT_VERIF_SERVICE_CONTRACTS_H
#define CAT_VERIF_SERVICE_CONTRACTS_H
#include "inv.h"

#define OLD(x) __CPROVER_old(x)
#define RET    __CPROVER_return_value

static struct env_log G_EV;   /* environment log at the end of the event machine's step */

/* ---------------------------------------------------------------------------------------------
 * vocabulary of the property statements
 * ------------------------------------------------------------------------------------------- */
/* states in which the command machine consumes input (exactly these call io->read, once) */
static _Bool p_reading_state(cat_state st)
{
        return st == CAT_STATE_ERROR || st == CAT_STATE_IDLE || st == CAT_STATE_PARSE_PREFIX || st == CAT_STATE_PARSE_COMMAND_CHAR ||
               st == CAT_STATE_WAIT_READ_ACKNOWLEDGE || st == CAT_STATE_PARSE_COMMAND_ARGS || st == CAT_STATE_WAIT_TEST_ACKNOWLEDGE;
}

/* line phase of the command machine (C01): 0 BLANK (between lines), 1 INLINE (inside a line, LF not yet
 * consumed), 2 OWED (LF consumed, result code not yet started), 3 ACKING (result code being emitted) */
#define PH_BLANK 0
#define PH_INLINE 1
#define PH_OWED 2
#define PH_ACKING 3
static int p_phase(const struct cat_object *s)
{
        switch (s->state) {
        case CAT_STATE_IDLE:
                return PH_BLANK;
        case CAT_STATE_ERROR: case CAT_STATE_PARSE_PREFIX: case CAT_STATE_PARSE_COMMAND_CHAR: case CAT_STATE_UPDATE_COMMAND_STATE:
        case CAT_STATE_WAIT_READ_ACKNOWLEDGE: case CAT_STATE_WAIT_TEST_ACKNOWLEDGE: case CAT_STATE_PARSE_COMMAND_ARGS:
                return PH_INLINE;
        case CAT_STATE_SEARCH_COMMAND: case CAT_STATE_COMMAND_FOUND:
                return (s->current_char == '\n') ? PH_OWED : PH_INLINE;
        case CAT_STATE_FLUSH_IO_WRITE_WAIT: case CAT_STATE_FLUSH_IO_WRITE:
                return (s->write_state_after == CAT_STATE_AFTER_FLUSH_RESET) ? PH_ACKING : PH_OWED;
        case CAT_STATE_AFTER_FLUSH_RESET:
                return PH_ACKING;
        default:
                return PH_OWED;
        }
}

/* the command half holds exactly the text of a final result code */
static _Bool p_buf_is_ok(void)    { return ABUFP[0] == 'O' && ABUFP[1] == 'K' && ABUFP[2] == 0; }
static _Bool p_buf_is_error(void) { return ABUFP[0] == 'E' && ABUFP[1] == 'R' && ABUFP[2] == 'R' && ABUFP[3] == 'O' && ABUFP[4] == 'R' && ABUFP[5] == 0; }

/* a freshly started unit: newline first, then the command half, then newline; continuation t */
static _Bool p_unit_started(const struct cat_object *s, cat_state t)
{
        return s->state == CAT_STATE_FLUSH_IO_WRITE_WAIT && s->write_state == V_WS_BEFORE && s->position == 0 &&
               s->write_buf == &h_crlf[s->cr_flag ? 0 : 1] && s->write_state_after == t;
}
static _Bool p_ack_ok_started(const struct cat_object *s)    { return p_unit_started(s, CAT_STATE_AFTER_FLUSH_RESET) && p_buf_is_ok(); }
static _Bool p_ack_error_started(const struct cat_object *s) { return p_unit_started(s, CAT_STATE_AFTER_FLUSH_RESET) && p_buf_is_error(); }

/* number of environment calls made by the command machine in this step */
#define AT_READS   (E.rd_calls - G_EV.rd_calls)
#define AT_WRITES  (E.wr_calls - G_EV.wr_calls)
#define AT_HCALLS  (E.h_calls - G_EV.h_calls)
#define AT_VWCALLS (E.vw_calls - G_EV.vw_calls)
#define AT_VRCALLS (E.vr_calls - G_EV.vr_calls)

/* the service call got past the mutex (both lock and unlock succeeded or no mutex) */
#define LOCK_OK    (g_old.mutex == NULL || EL.lock_ret == 0)
#define UNLOCK_OK  (g_old.mutex == NULL || EL.unlock_ret == 0)
#define RAN        (LOCK_OK)

static _Bool p_ring_empty(const struct cat_object *s) { return UF(s).unsolicited_cmd_buffer_items_count == 0; }

/* bytewise equality of the command-machine part of two objects (everything outside unsolicited_fsm,
 * current_char excepted on request) */
static _Bool p_at_same(const struct cat_object *a, const struct cat_object *b, _Bool ignore_current_char)
{
        return a->desc == b->desc && a->io == b->io && a->mutex == b->mutex && a->index == b->index && a->partial_cntr == b->partial_cntr &&
               a->length == b->length && a->position == b->position && a->write_size == b->write_size && a->commands_num == b->commands_num &&
               a->cmd == b->cmd && a->var == b->var && a->cmd_type == b->cmd_type && (ignore_current_char || a->current_char == b->current_char) &&
               a->state == b->state && a->cr_flag == b->cr_flag && a->hold_state_flag == b->hold_state_flag && a->hold_exit_status == b->hold_exit_status &&
               a->write_buf == b->write_buf && a->write_state == b->write_state && a->write_state_after == b->write_state_after &&
               a->implicit_write_flag == b->implicit_write_flag;
}

/* the command half is bytewise what it was at the call */
static _Bool p_abuf_unchanged(void)
{
        size_t i;
        for (i = 0; i < H_BUFSZ; i++)
                if (i < H_CAPA && h_buf[i] != g_oldbuf[i])
                        return 0;
        return 1;
}

/* ---------------------------------------------------------------------------------------------
 * event machine step
 * ------------------------------------------------------------------------------------------- */
#define EVENT_ASSIGNS \
        self->unsolicited_fsm, self->hold_exit_status, E, G_EV, __CPROVER_object_upto(H_UBUF, H_CAPU)

static cat_status unsolicited_events_service(struct cat_object *self)
__CPROVER_requires(self == &h_obj && inv_wf(self) && inv_ring(self) && inv_ev(self))
__CPROVER_assigns(EVENT_ASSIGNS)
/* [INV:ev-ring]         */ __CPROVER_ensures(inv_ring(self))
/* [INV:ev-ev]           */ __CPROVER_ensures(inv_ev(self))
/* [C11:ev-excl]         */ __CPROVER_ensures(UST(self) == CAT_UNSOLICITED_STATE_FLUSH_IO_WRITE ==> (OLD(UST(self)) == CAT_UNSOLICITED_STATE_FLUSH_IO_WRITE || (OLD(UST(self)) == CAT_UNSOLICITED_STATE_FLUSH_IO_WRITE_WAIT && ST(self) != CAT_STATE_FLUSH_IO_WRITE)))
/* [C01,C12:ev-noread]   */ __CPROVER_ensures(E.rd_calls == OLD(E.rd_calls))
/* [C16:ev-cb-locked]    */ __CPROVER_ensures(E.cb_unlocked == OLD(E.cb_unlocked))
/* [C10:ev-one-handler]  */ __CPROVER_ensures(E.h_calls >= OLD(E.h_calls) && E.h_calls <= OLD(E.h_calls) + 1 && E.vr_calls >= OLD(E.vr_calls) && E.vr_calls <= OLD(E.vr_calls) + 1 && E.vw_calls == OLD(E.vw_calls))
/* [ENV:ev-reent]        */ __CPROVER_ensures(E.reent_trig >= OLD(E.reent_trig) && E.reent_trig <= OLD(E.reent_trig) + 1 && E.reent_hold >= OLD(E.reent_hold) && E.reent_hold <= OLD(E.reent_hold) + 1)
/* [C11:ev-write]        */ __CPROVER_ensures(E.wr_calls == OLD(E.wr_calls) || (E.wr_calls == OLD(E.wr_calls) + 1 && OLD(UST(self)) == CAT_UNSOLICITED_STATE_FLUSH_IO_WRITE))
/* [C14:ev-holdexit]     */ __CPROVER_ensures(self->hold_exit_status == OLD(self->hold_exit_status) || (self->hold_state_flag != 0 && self->hold_exit_status != 0))
/* [C15:ev-ret]          */ __CPROVER_ensures(RET == CAT_STATUS_OK || RET == CAT_STATUS_BUSY)
/* [C15:ev-ok-idle]      */ __CPROVER_ensures(RET == CAT_STATUS_OK ==> OLD(UST(self)) == CAT_UNSOLICITED_STATE_IDLE)
/* [ENV:ev-ghost]        */ __CPROVER_ensures(EV_GHOST_CLAUSE)
;

/* ---------------------------------------------------------------------------------------------
 * cat_service: one step of both machines
 * ------------------------------------------------------------------------------------------- */
cat_status cat_service(struct cat_object *self)
__CPROVER_requires(self == &h_obj && inv_wf(self) && inv_ring(self) && inv_ev(self) && inv_excl(self) && inv_hold(self) && inv_live(self))
/* standing assumption: size_t counters do not wrap (a line is shorter than 2^64 bytes) */
__CPROVER_requires(self->length < (size_t)-1)
__CPROVER_assigns(*self, E, EL, G_EV, g_sat, g_ndig, g_size, g_nesc, g_src, g_esc, __CPROVER_object_whole(h_buf), __CPROVER_object_whole(h_vdata) SERVICE_EXTRA_ASSIGNS)
/* [INV:wf]              */ __CPROVER_ensures(inv_wf(self))
/* [INV:ring]            */ __CPROVER_ensures(inv_ring(self))
/* [INV:ev]              */ __CPROVER_ensures(inv_ev(self))
/* [C11,C18:excl]        */ __CPROVER_ensures(inv_excl(self))
/* [C14,C18:hold]        */ __CPROVER_ensures(inv_hold(self))
/* [INV:live]            */ __CPROVER_ensures(inv_live(self))
/* ---- C01: input is consumed only while no result code is owed; phases move forward only ---- */
/* [C01,C12,C14:read-only-in-reading-state] */ __CPROVER_ensures(AT_READS == ((RAN && p_reading_state(g_old.state)) ? 1 : 0))
/* [C01:phase-blank]     */ __CPROVER_ensures((RAN && p_phase(&g_old) == PH_BLANK) ==> (p_phase(self) == PH_BLANK || (p_phase(self) == PH_INLINE && E.rd_avail && E.rd_ch != '\n' && E.rd_ch != '\r')))
/* [C01:blank-silent]    */ __CPROVER_ensures((RAN && p_phase(&g_old) == PH_BLANK) ==> (AT_WRITES == 0 && AT_HCALLS == 0))
/* [C01:phase-inline]    */ __CPROVER_ensures((RAN && p_phase(&g_old) == PH_INLINE && p_phase(self) != PH_INLINE) ==> ((p_phase(self) == PH_OWED || p_phase(self) == PH_ACKING) && AT_READS == 1 && E.rd_avail && E.rd_ch == '\n'))
/* [C01:phase-owed]      */ __CPROVER_ensures((RAN && p_phase(&g_old) == PH_OWED) ==> (p_phase(self) == PH_OWED || p_phase(self) == PH_ACKING))
/* [C01:ack-text]        */ __CPROVER_ensures((RAN && p_phase(&g_old) != PH_ACKING && p_phase(self) == PH_ACKING) ==> (p_ack_ok_started(self) || p_ack_error_started(self)))
/* [C01:phase-acking]    */ __CPROVER_ensures((RAN && p_phase(&g_old) == PH_ACKING) ==> (p_phase(self) == PH_ACKING || (p_phase(self) == PH_BLANK && g_old.state == CAT_STATE_AFTER_FLUSH_RESET)))
/* [C01,C11:ack-frozen]  */ __CPROVER_ensures((RAN && p_phase(&g_old) == PH_ACKING) ==> (p_abuf_unchanged() && AT_HCALLS == 0))
/* ---- C11/C12: output discipline ---- */
/* [C11,C12:one-write]   */ __CPROVER_ensures(AT_WRITES == 0 || (AT_WRITES == 1 && RAN && g_old.state == CAT_STATE_FLUSH_IO_WRITE))
/* [C11,C12:write-byte]  */ __CPROVER_ensures(AT_WRITES == 1 ==> (E.wr_ch == g_old.write_buf[g_old.position] && E.wr_ch != 0 && self->state == CAT_STATE_FLUSH_IO_WRITE && self->write_buf == g_old.write_buf && self->write_state == g_old.write_state && self->position == g_old.position + (E.wr_ok ? 1 : 0)))
/* ---- C15: OK only when quiescent ---- */
/* [C15:ret]             */ __CPROVER_ensures(RET == CAT_STATUS_OK || RET == CAT_STATUS_BUSY || RET == CAT_STATUS_ERROR_MUTEX_LOCK || RET == CAT_STATUS_ERROR_MUTEX_UNLOCK)
/* [C15:ok-quiescent]    */ __CPROVER_ensures(RET == CAT_STATUS_OK ==> (p_ring_empty(self) && UST(self) == CAT_UNSOLICITED_STATE_IDLE && p_reading_state(self->state) && self->state == g_old.state && AT_READS == 1 && !E.rd_avail && AT_WRITES == 0 && AT_HCALLS == 0))
/* ---- C16: mutex discipline ---- */
/* [C16:lock-balance]    */ __CPROVER_ensures(g_old.mutex == NULL ? (EL.lock_calls == 0 && EL.unlock_calls == 0) : (EL.lock_calls == 1 && EL.unlock_calls == (EL.lock_ret == 0 ? 1 : 0) && !EL.lock_err && !EL.held))
/* [C16:callbacks-locked]*/ __CPROVER_ensures(!E.cb_unlocked)
/* [C16:lock-fail]       */ __CPROVER_ensures((g_old.mutex != NULL && EL.lock_ret != 0) ==> (RET == CAT_STATUS_ERROR_MUTEX_LOCK && p_at_same(&g_old, self, 0) && E.rd_calls == 0 && E.wr_calls == 0 && E.h_calls == 0 && E.vr_calls == 0 && E.vw_calls == 0))
/* [C16:unlock-fail]     */ __CPROVER_ensures((g_old.mutex != NULL && EL.lock_ret == 0 && EL.unlock_ret != 0) ==> RET == CAT_STATUS_ERROR_MUTEX_UNLOCK)
/* [C16:nothing-outside] */ __CPROVER_ensures((g_old.mutex != NULL && EL.lock_ret == 0) ==> (p_at_same(&g_old, &EL.at_lock, 0) && p_at_same(&EL.at_unlock, self, 0)))
;

#endif
