/* Step contracts: cat_service (one step of both machines) and unsolicited_events_service (one step of
 * the event machine).  Written against the public struct and the ghost log of harness/l1_env.h.
 * g_old is the harness' snapshot of the object at the call; E the environment log; G_EV the log as
 * it stood when the event machine's step was over (definitional ghost, see below). */
#ifndef CAT_VERIF_SERVICE_CONTRACTS_H
#define CAT_VERIF_SERVICE_CONTRACTS_H
#include "inv.h"
#include "spec_text.h"

#define OLD(x) __CPROVER_old(x)
#define RET    __CPROVER_return_value

static struct env_log G_EV;   /* environment log at the end of the event machine's step */
static int G_HES;             /* hold_exit_status at the end of the event machine's step */
static uint8_t G_UBYTE;       /* witness byte g_w of the event half at the end of the event machine's step */
static size_t g_w;            /* witness index into the event half */

/* ---------------------------------------------------------------------------------------------
 * vocabulary of the property statements
 * ------------------------------------------------------------------------------------------- */
/* states in which the command machine consumes input (exactly these call io->read, once) */
static _Bool p_reading_state(cat_state st)
{
        return st == CAT_STATE_ERROR || st == CAT_STATE_IDLE || st == CAT_STATE_PARSE_PREFIX || st == CAT_STATE_PARSE_COMMAND_CHAR ||
               st == CAT_STATE_WAIT_READ_ACKNOWLEDGE || st == CAT_STATE_PARSE_COMMAND_ARGS || st == CAT_STATE_WAIT_TEST_ACKNOWLEDGE;
}

/* line phase of the command machine (C01): 0 BLANK (between lines), 1 INLINE (inside a line, LF not yet
 * consumed), 2 OWED (LF consumed, result code not yet started), 3 ACKING (result code being emitted) */
#define PH_BLANK 0
#define PH_INLINE 1
#define PH_OWED 2
#define PH_ACKING 3
static int p_phase(const struct cat_object *s)
{
        switch (s->state) {
        case CAT_STATE_IDLE:
                return PH_BLANK;
        case CAT_STATE_ERROR: case CAT_STATE_PARSE_PREFIX: case CAT_STATE_PARSE_COMMAND_CHAR: case CAT_STATE_UPDATE_COMMAND_STATE:
        case CAT_STATE_WAIT_READ_ACKNOWLEDGE: case CAT_STATE_WAIT_TEST_ACKNOWLEDGE: case CAT_STATE_PARSE_COMMAND_ARGS:
                return PH_INLINE;
        case CAT_STATE_SEARCH_COMMAND: case CAT_STATE_COMMAND_FOUND:
                return (s->current_char == '\n') ? PH_OWED : PH_INLINE;
        case CAT_STATE_FLUSH_IO_WRITE_WAIT: case CAT_STATE_FLUSH_IO_WRITE:
                return (s->write_state_after == CAT_STATE_AFTER_FLUSH_RESET) ? PH_ACKING : PH_OWED;
        case CAT_STATE_AFTER_FLUSH_RESET:
                return PH_ACKING;
        default:
                return PH_OWED;
        }
}

/* the command half holds exactly the text of a final result code */
static _Bool p_buf_is_ok(void)    { return ABUFP[0] == 'O' && ABUFP[1] == 'K' && ABUFP[2] == 0; }
static _Bool p_buf_is_error(void) { return ABUFP[0] == 'E' && ABUFP[1] == 'R' && ABUFP[2] == 'R' && ABUFP[3] == 'O' && ABUFP[4] == 'R' && ABUFP[5] == 0; }

/* a freshly started unit: newline first, then the command half, then newline; continuation t */
static _Bool p_unit_started(const struct cat_object *s, cat_state t)
{
        return s->state == CAT_STATE_FLUSH_IO_WRITE_WAIT && s->write_state == V_WS_BEFORE && s->position == 0 &&
               s->write_buf == &h_crlf[s->cr_flag ? 0 : 1] && s->write_state_after == t;
}
static _Bool p_ack_ok_started(const struct cat_object *s)    { return p_unit_started(s, CAT_STATE_AFTER_FLUSH_RESET) && p_buf_is_ok(); }
static _Bool p_ack_error_started(const struct cat_object *s) { return p_unit_started(s, CAT_STATE_AFTER_FLUSH_RESET) && p_buf_is_error(); }

/* number of environment calls made by the command machine in this step */
#define AT_READS   (E.rd_calls - G_EV.rd_calls)
#define AT_WRITES  (E.wr_calls - G_EV.wr_calls)
#define AT_HCALLS  (E.h_calls - G_EV.h_calls)
#define AT_VWCALLS (E.vw_calls - G_EV.vw_calls)
#define AT_VRCALLS (E.vr_calls - G_EV.vr_calls)

/* the service call got past the mutex (both lock and unlock succeeded or no mutex) */
#define LOCK_OK    (g_old.mutex == NULL || EL.lock_ret == 0)
#define UNLOCK_OK  (g_old.mutex == NULL || EL.unlock_ret == 0)
#define RAN        (LOCK_OK)

static _Bool p_ring_empty(const struct cat_object *s) { return UF(s).unsolicited_cmd_buffer_items_count == 0; }

/* bytewise equality of the command-machine part of two objects (everything outside unsolicited_fsm,
 * current_char excepted on request) */
static _Bool p_at_same_x(const struct cat_object *a, const struct cat_object *b, _Bool ignore_current_char, _Bool ignore_hes)
{
        return a->desc == b->desc && a->io == b->io && a->mutex == b->mutex && a->index == b->index && a->partial_cntr == b->partial_cntr &&
               a->length == b->length && a->position == b->position && a->write_size == b->write_size && a->commands_num == b->commands_num &&
               a->cmd == b->cmd && a->var == b->var && a->cmd_type == b->cmd_type && (ignore_current_char || a->current_char == b->current_char) &&
               a->state == b->state && a->cr_flag == b->cr_flag && a->hold_state_flag == b->hold_state_flag && (ignore_hes || a->hold_exit_status == b->hold_exit_status) &&
               a->write_buf == b->write_buf && a->write_state == b->write_state && a->write_state_after == b->write_state_after &&
               a->implicit_write_flag == b->implicit_write_flag;
}

static _Bool p_at_same(const struct cat_object *a, const struct cat_object *b, _Bool ignore_current_char) { return p_at_same_x(a, b, ignore_current_char, 0); }

/* the command half is bytewise what it was at the call */
static _Bool p_abuf_unchanged(void)
{
        size_t i;
        for (i = 0; i < H_BUFSZ; i++)
                if (i < H_CAPA && h_buf[i] != g_oldbuf[i])
                        return 0;
        return 1;
}


/* no variable's storage changed in this step */
static _Bool p_vdata_unchanged(void)
{
        size_t a, b, c;
        for (a = 0; a < H_NC; a++)
                for (b = 0; b < H_NV; b++)
                        for (c = 0; c < H_DS; c++)
                                if (h_vdata[a][b][c] != g_oldvdata[a][b][c])
                                        return 0;
        return 1;
}

/* only variables of command ci may have changed */
static _Bool p_vdata_unchanged_except(size_t ci)
{
        size_t a, b, c;
        for (a = 0; a < H_NC; a++)
                for (b = 0; b < H_NV; b++)
                        for (c = 0; c < H_DS; c++)
                                if (a != ci && h_vdata[a][b][c] != g_oldvdata[a][b][c])
                                        return 0;
        return 1;
}

/* the first n bytes of the command half are what they were at the call */
static _Bool p_abuf_prefix_unchanged(size_t n)
{
        size_t i;
        for (i = 0; i < H_BUFSZ; i++)
                if (i < n && i < H_CAPA && h_buf[i] != g_oldbuf[i])
                        return 0;
        return 1;
}

/* the event half is bytewise what it was at the call */
static _Bool p_ubuf_unchanged(void)
{
        size_t i;
#if H_SHARED
        for (i = 0; i < H_BUFSZ; i++)
                if (i >= (H_BUFSZ >> 1) && h_buf[i] != g_oldbuf[i])
                        return 0;
#else
        for (i = 0; i < H_UBUFSZ; i++)
                if (h_ubuf[i] != g_oldubuf[i])
                        return 0;
#endif
        return 1;
}

/* the event machine part of the object (incl. the queue) is what it was */
static _Bool p_un_same(const struct cat_object *a, const struct cat_object *b)
{
        size_t j;
        if (!(UST(a) == UST(b) && UF(a).index == UF(b).index && UF(a).position == UF(b).position && UF(a).cmd == UF(b).cmd && UF(a).var == UF(b).var &&
              UF(a).cmd_type == UF(b).cmd_type && UF(a).write_buf == UF(b).write_buf && UF(a).write_state == UF(b).write_state &&
              UF(a).write_state_after == UF(b).write_state_after && UF(a).unsolicited_cmd_buffer_tail == UF(b).unsolicited_cmd_buffer_tail &&
              UF(a).unsolicited_cmd_buffer_head == UF(b).unsolicited_cmd_buffer_head && UF(a).unsolicited_cmd_buffer_items_count == UF(b).unsolicited_cmd_buffer_items_count))
                return 0;
        for (j = 0; j < H_RING; j++)
                if (UF(a).unsolicited_cmd_buffer[j].cmd != UF(b).unsolicited_cmd_buffer[j].cmd || UF(a).unsolicited_cmd_buffer[j].type != UF(b).unsolicited_cmd_buffer[j].type)
                        return 0;
        return 1;
}

/* which handler kind a looping state invokes (E_KIND_*), -1 if the state invokes none */
static int p_loop_kind(cat_state st)
{
        return st == CAT_STATE_RUN_LOOP ? E_KIND_RUN : st == CAT_STATE_READ_LOOP ? E_KIND_READ : st == CAT_STATE_WRITE_LOOP ? E_KIND_WRITE : st == CAT_STATE_TEST_LOOP ? E_KIND_TEST : -1;
}

/* hold entered by this step */
static _Bool p_hold_entered(const struct cat_object *s) { return s->state == CAT_STATE_HOLD && s->hold_state_flag != 0 && s->hold_exit_status == 0; }

/* command list started: first command, no line printed yet */
static _Bool p_cmd_list_started(const struct cat_object *s) { return s->state == CAT_STATE_PRINT_CMD && s->index == 0 && s->length == 0 && s->cmd_type == CAT_CMD_TYPE_NONE; }

/* a response is re-formatted from scratch: the post-state is one the formatter start can produce, and nothing is being flushed as data */
static _Bool p_reformat_read(const struct cat_object *s)
{
        return (s->state == CAT_STATE_FORMAT_READ_ARGS && s->index == 0 && s->var == s->cmd->var) || s->state == CAT_STATE_READ_LOOP || p_ack_error_started(s);
}
static _Bool p_reformat_test(const struct cat_object *s)
{
        return (s->state == CAT_STATE_FORMAT_TEST_ARGS && s->index == 0 && s->var == s->cmd->var) || s->state == CAT_STATE_TEST_LOOP ||
               p_unit_started(s, CAT_STATE_AFTER_FLUSH_OK) || p_ack_error_started(s);
}

/* access possible in the sense of the property text: some variable is readable (RW or RO) / writable (RW or WO) */
static _Bool p_any_var(const struct cat_command *c, cat_var_access other)
{
        size_t i;
        if (c->var == NULL)
                return 0;
        for (i = 0; i < H_NV; i++)
                if (i < c->var_num && (c->var[i].access == CAT_VAR_ACCESS_READ_WRITE || c->var[i].access == other))
                        return 1;
        return 0;
}
#define p_readable(c) p_any_var((c), CAT_VAR_ACCESS_READ_ONLY)
#define p_writable(c) p_any_var((c), CAT_VAR_ACCESS_WRITE_ONLY)

/* event machine: unit started with continuation t */
static _Bool p_ev_unit_started(const struct cat_object *s, cat_unsolicited_state t)
{
        return UST(s) == CAT_UNSOLICITED_STATE_FLUSH_IO_WRITE_WAIT && UF(s).write_state == V_WS_BEFORE && UF(s).position == 0 &&
               UF(s).write_buf == &h_crlf[s->cr_flag ? 0 : 1] && UF(s).write_state_after == t;
}
static _Bool p_ev_finished(const struct cat_object *s) { return UST(s) == CAT_UNSOLICITED_STATE_IDLE && UF(s).cmd == NULL; }

/* ---- C19: TEST response and command list, text level (expected text built from the descriptor) ---- */
/* what the step from FORMAT_TEST_ARGS / the start of a TEST response must leave behind, given the text so far
 * exp[0..n): finishing part (description, then handler or emission) */
static _Bool p_c19_finish(const struct cat_object *s, char *exp, size_t n)
{
        const struct cat_command *c = g_old.cmd;
        if (c->description != NULL) {
                n = x_put(exp, n, &h_crlf[s->cr_flag ? 0 : 1], 2);
                n = x_put(exp, n, c->description, H_NL);
        }
        if (n >= H_CAPA)
                return p_ack_error_started(s);                   /* does not fit: ERROR, never a truncated line */
        if (!x_text_is(ABUFP, H_CAPA, exp, n))
                return 0;
        return (c->test != NULL) ? (s->state == CAT_STATE_TEST_LOOP && s->position == n) : p_unit_started(s, CAT_STATE_AFTER_FLUSH_OK);
}

static _Bool p_c19_test_step(const struct cat_object *s)
{
        char exp[X_MAXTXT];
        size_t i, n = g_old.position, m;
        const struct cat_command *c = g_old.cmd;
        for (i = 0; i < X_MAXTXT; i++)
                exp[i] = (i < H_CAPA && i < n) ? (char)g_oldbuf[i] : 0;
        m = x_token(exp, n, g_old.var, H_NL);
        if (m == (size_t)-1 || m >= H_CAPA)
                return p_ack_error_started(s);
        if (g_old.index + 1 < c->var_num) {
                /* more variables: a comma, then the next variable */
                m = x_put(exp, m, ",", 1);
                if (m > H_CAPA)
                        return p_ack_error_started(s);
                if (!(s->state == CAT_STATE_FORMAT_TEST_ARGS && s->index == g_old.index + 1 && s->var == &c->var[s->index] && s->position == m))
                        return 0;
                for (i = 0; i < X_MAXTXT; i++)
                        if (i < m && i < H_CAPA && ABUFP[i] != exp[i])
                                return 0;
                return 1;
        }
        return p_c19_finish(s, exp, m);
}

static _Bool p_c19_test_start(const struct cat_object *s)
{
        char exp[X_MAXTXT];
        size_t i, n = 0;
        const struct cat_command *c = g_old.cmd;
        for (i = 0; i < X_MAXTXT; i++)
                exp[i] = 0;
        n = x_put(exp, n, c->name, H_NL);
        n = x_put(exp, n, "=", 1);
        if (n >= H_CAPA)
                return p_ack_error_started(s);
        if (p_has_vars(c))
                return s->state == CAT_STATE_FORMAT_TEST_ARGS && s->index == 0 && s->var == &c->var[0] && s->position == n && x_text_is(ABUFP, H_CAPA, exp, n);
        return p_c19_finish(s, exp, n);
}

/* request forms the dispatcher accepts (C19 compares the list against these) */
static _Bool p_accepts(const struct cat_command *c, cat_cmd_type f)
{
        switch (f) {
        case CAT_CMD_TYPE_RUN: return !c->only_test && c->run != NULL;
        case CAT_CMD_TYPE_READ: return !c->only_test && (c->read != NULL || p_readable(c));
        case CAT_CMD_TYPE_WRITE: return !c->only_test && (c->write != NULL || p_writable(c));
        case CAT_CMD_TYPE_TEST: return (c->test != NULL || p_has_vars(c)) && !c->implicit_write;
        default: return 0;
        }
}

static _Bool p_list_next_cmd(const struct cat_object *s)
{
        if (g_old.index + 1 < g_ncmds)
                return s->state == CAT_STATE_PRINT_CMD && s->index == g_old.index + 1 && s->length == 0 && s->cmd_type == CAT_CMD_TYPE_NONE;
        return p_ack_ok_started(s);
}

static _Bool p_c19_list_step(const struct cat_object *s)
{
        const struct cat_command *c = &h_cmds[g_old.index];
        cat_cmd_type t = g_old.cmd_type;
        char exp[X_MAXTXT];
        size_t i, n = 0;
        if (t == CAT_CMD_TYPE_NONE) {
                if (p_disabled(g_old.index))
                        return p_list_next_cmd(s);                /* nothing for disabled commands or commands of disabled groups */
                return s->state == CAT_STATE_PRINT_CMD && s->index == g_old.index && s->cmd_type == (c->only_test ? CAT_CMD_TYPE_TEST : CAT_CMD_TYPE_RUN);
        }
        if (t == CAT_CMD_TYPE__TOTAL_NUM)
                return p_list_next_cmd(s);
        if (c->implicit_write && p_has_vars(c))
                return 1;                                         /* excepted by the statement */
        if (!p_accepts(c, t))                                     /* form not offered: no line, next form */
                return s->state == CAT_STATE_PRINT_CMD && s->index == g_old.index && s->cmd_type == t + 1 && s->length == g_old.length;
        for (i = 0; i < X_MAXTXT; i++)
                exp[i] = 0;
        if (g_old.length == 0)
                n = x_put(exp, n, &h_crlf[s->cr_flag ? 0 : 1], 2);
        n = x_put(exp, n, "AT", 2);
        n = x_put(exp, n, c->name, H_NL);
        n = x_put(exp, n, t == CAT_CMD_TYPE_READ ? "?" : t == CAT_CMD_TYPE_WRITE ? "=" : t == CAT_CMD_TYPE_TEST ? "=?" : "", 2);
        n = x_put(exp, n, &h_crlf[s->cr_flag ? 0 : 1], 2);
        if (n >= H_CAPA)
                return p_ack_error_started(s);
        return s->state == CAT_STATE_FLUSH_IO_WRITE_WAIT && s->write_state == V_WS_AFTER && s->write_buf == ABUFP && s->position == 0 &&
               s->write_state_after == CAT_STATE_PRINT_CMD && s->index == g_old.index && s->cmd_type == t + 1 && s->length == 1 && x_text_is(ABUFP, H_CAPA, exp, n);
}

/* ---- C19 for unsolicited TEST events: same text, event half, no result code (failure = event abandoned) ---- */
static uint8_t p_old_ubyte(size_t i)
{
#if H_SHARED
        return g_oldbuf[(H_BUFSZ >> 1) + i];
#else
        return g_oldubuf[i];
#endif
}

static _Bool pe_c19_finish(const struct cat_object *s, char *exp, size_t n)
{
        const struct cat_command *c = p_norm_cmd(g_old.unsolicited_fsm.cmd);
        if (c->description != NULL) {
                n = x_put(exp, n, &h_crlf[s->cr_flag ? 0 : 1], 2);
                n = x_put(exp, n, c->description, H_NL);
        }
        if (n >= H_CAPU)
                return p_ev_finished(s);                          /* does not fit: abandoned, never a truncated line */
        if (!x_text_is(UBUFP, H_CAPU, exp, n))
                return 0;
        return (c->test != NULL) ? (UST(s) == CAT_UNSOLICITED_STATE_TEST_LOOP && UF(s).position == n) : p_ev_unit_started(s, CAT_UNSOLICITED_STATE_AFTER_FLUSH_OK);
}

static _Bool pe_c19_test_step(const struct cat_object *s)
{
        char exp[X_MAXTXT];
        size_t i, n = g_old.unsolicited_fsm.position, m;
        const struct cat_command *c = p_norm_cmd(g_old.unsolicited_fsm.cmd);
        for (i = 0; i < X_MAXTXT; i++)
                exp[i] = (i < H_CAPU && i < n) ? (char)p_old_ubyte(i) : 0;
        m = x_token(exp, n, &c->var[g_old.unsolicited_fsm.index], H_NL);
        if (m == (size_t)-1 || m >= H_CAPU)
                return p_ev_finished(s);
        if (g_old.unsolicited_fsm.index + 1 < c->var_num) {
                m = x_put(exp, m, ",", 1);
                if (m > H_CAPU)
                        return p_ev_finished(s);
                if (!(UST(s) == CAT_UNSOLICITED_STATE_FORMAT_TEST_ARGS && UF(s).index == g_old.unsolicited_fsm.index + 1 && UF(s).var == &c->var[UF(s).index] && UF(s).position == m))
                        return 0;
                for (i = 0; i < X_MAXTXT; i++)
                        if (i < m && i < H_CAPU && UBUFP[i] != exp[i])
                                return 0;
                return 1;
        }
        return pe_c19_finish(s, exp, m);
}

static _Bool pe_c19_test_start(const struct cat_object *s, const struct cat_command *cmd)
{
        char exp[X_MAXTXT];
        size_t i, n = 0;
        const struct cat_command *c = p_norm_cmd(cmd);
        for (i = 0; i < X_MAXTXT; i++)
                exp[i] = 0;
        n = x_put(exp, n, c->name, H_NL);
        n = x_put(exp, n, "=", 1);
        if (n >= H_CAPU)
                return p_ev_finished(s);
        if (p_has_vars(c))
                return UST(s) == CAT_UNSOLICITED_STATE_FORMAT_TEST_ARGS && UF(s).index == 0 && UF(s).var == &c->var[0] && UF(s).position == n && x_text_is(UBUFP, H_CAPU, exp, n);
        /* finishing part with the command of the event */
        if (c->description != NULL) {
                n = x_put(exp, n, &h_crlf[s->cr_flag ? 0 : 1], 2);
                n = x_put(exp, n, c->description, H_NL);
        }
        if (n >= H_CAPU)
                return p_ev_finished(s);
        if (!x_text_is(UBUFP, H_CAPU, exp, n))
                return 0;
        return (c->test != NULL) ? (UST(s) == CAT_UNSOLICITED_STATE_TEST_LOOP && UF(s).position == n) : p_ev_unit_started(s, CAT_UNSOLICITED_STATE_AFTER_FLUSH_OK);
}

#include "variant.h"
#define EV_FAIR    ((E.wr_calls == OLD(E.wr_calls) || E.wr_ok) && (!(E.h_calls == OLD(E.h_calls) + 1) || v_terminal(E.h_ret)) && E.reent_trig == OLD(E.reent_trig))
#define EV_BLOCKED (OLD(UST(self)) == CAT_UNSOLICITED_STATE_FLUSH_IO_WRITE_WAIT && ST(self) == CAT_STATE_FLUSH_IO_WRITE)
#define PHI(s)     (v_phi_ev(s) + v_phi_at(s))
#define ALL_FAIR   ((AT_READS == 0 || !E.rd_avail) && (AT_WRITES == 0 || E.wr_ok) && (AT_HCALLS == 0 || v_terminal(E.h_ret)) && E.reent_trig == 0 && \
                    (G_EV.wr_calls == 0 || G_EV.wr_ok) && (G_EV.h_calls == 0 || v_terminal(G_EV.h_ret)))

/* ---------------------------------------------------------------------------------------------
 * event machine step
 * ------------------------------------------------------------------------------------------- */
#define EVENT_ASSIGNS \
        self->unsolicited_fsm, self->hold_exit_status, E, G_EV, G_HES, G_UBYTE, __CPROVER_object_upto(H_UBUF, H_CAPU)

static cat_status unsolicited_events_service(struct cat_object *self)
__CPROVER_requires(self == &h_obj && inv_wf(self) && inv_ring(self) && inv_ev(self))
__CPROVER_assigns(EVENT_ASSIGNS)
/* [INV:ev-ring]         */ __CPROVER_ensures(inv_ring(self))
/* [INV:ev-ev]           */ __CPROVER_ensures(inv_ev(self))
/* [C11:ev-excl]         */ __CPROVER_ensures(UST(self) == CAT_UNSOLICITED_STATE_FLUSH_IO_WRITE ==> (OLD(UST(self)) == CAT_UNSOLICITED_STATE_FLUSH_IO_WRITE || (OLD(UST(self)) == CAT_UNSOLICITED_STATE_FLUSH_IO_WRITE_WAIT && ST(self) != CAT_STATE_FLUSH_IO_WRITE)))
/* [C01,C12:ev-noread]   */ __CPROVER_ensures(E.rd_calls == OLD(E.rd_calls))
/* [C16:ev-cb-locked]    */ __CPROVER_ensures(E.cb_unlocked == OLD(E.cb_unlocked))
/* [C10:ev-one-handler]  */ __CPROVER_ensures(E.h_calls >= OLD(E.h_calls) && E.h_calls <= OLD(E.h_calls) + 1 && E.vr_calls >= OLD(E.vr_calls) && E.vr_calls <= OLD(E.vr_calls) + 1 && E.vw_calls == OLD(E.vw_calls))
/* [ENV:ev-reent]        */ __CPROVER_ensures(E.reent_trig >= OLD(E.reent_trig) && E.reent_trig <= OLD(E.reent_trig) + 1 && E.reent_hold >= OLD(E.reent_hold) && E.reent_hold <= OLD(E.reent_hold) + 1)
/* [C11:ev-write]        */ __CPROVER_ensures(E.wr_calls == OLD(E.wr_calls) || (E.wr_calls == OLD(E.wr_calls) + 1 && OLD(UST(self)) == CAT_UNSOLICITED_STATE_FLUSH_IO_WRITE))
/* [C14:ev-holdexit]     */ __CPROVER_ensures(self->hold_exit_status == OLD(self->hold_exit_status) || (self->hold_state_flag != 0 && self->hold_exit_status != 0))
/* [C15:ev-ret]          */ __CPROVER_ensures(RET == CAT_STATUS_OK || RET == CAT_STATUS_BUSY)
/* [C15:ev-ok-idle]      */ __CPROVER_ensures(RET == CAT_STATUS_OK ==> OLD(UST(self)) == CAT_UNSOLICITED_STATE_IDLE)
/* ---- C10/C14: return-code table of event handlers (no result code for events) ---- */
#define EV_OLD_ST   OLD(UST(self))
#define EV_HRET     (E.h_ret)
#define EV_CALLED   (E.h_calls == OLD(E.h_calls) + 1)
/* [C02,C06,C10:ev-handler-call] */ __CPROVER_ensures(EV_CALLED ==> ((EV_OLD_ST == CAT_UNSOLICITED_STATE_READ_LOOP && E.h_kind == E_KIND_READ) || (EV_OLD_ST == CAT_UNSOLICITED_STATE_TEST_LOOP && E.h_kind == E_KIND_TEST)) && E.h_cmd == OLD(UF(self).cmd))
/* [C10:ev-loop-calls]   */ __CPROVER_ensures((EV_OLD_ST == CAT_UNSOLICITED_STATE_READ_LOOP || EV_OLD_ST == CAT_UNSOLICITED_STATE_TEST_LOOP) ==> EV_CALLED)
/* [C06:ev-handler-args] */ __CPROVER_ensures(EV_CALLED ==> (E.h_data == (const uint8_t *)H_UBUF && E.h_size == OLD(UF(self).position) && E.h_max == H_CAPU && E.h_nul_ok))
/* [C10:ev-ok]           */ __CPROVER_ensures((EV_CALLED && EV_HRET == CAT_RETURN_STATE_OK) ==> p_ev_finished(self))
/* [C10:ev-data-ok]      */ __CPROVER_ensures((EV_CALLED && EV_HRET == CAT_RETURN_STATE_DATA_OK) ==> p_ev_unit_started(self, CAT_UNSOLICITED_STATE_AFTER_FLUSH_OK))
/* [C10:ev-data-next]    */ __CPROVER_ensures((EV_CALLED && EV_HRET == CAT_RETURN_STATE_DATA_NEXT) ==> p_ev_unit_started(self, E.h_kind == E_KIND_READ ? CAT_UNSOLICITED_STATE_AFTER_FLUSH_FORMAT_READ_ARGS : CAT_UNSOLICITED_STATE_AFTER_FLUSH_FORMAT_TEST_ARGS))
/* [C10:ev-next]         */ __CPROVER_ensures((EV_CALLED && EV_HRET == CAT_RETURN_STATE_NEXT) ==> (UST(self) != CAT_UNSOLICITED_STATE_FLUSH_IO_WRITE && (UST(self) != CAT_UNSOLICITED_STATE_FLUSH_IO_WRITE_WAIT || (E.h_kind == E_KIND_TEST && p_ev_unit_started(self, CAT_UNSOLICITED_STATE_AFTER_FLUSH_OK)))))
/* [C10:ev-error]        */ __CPROVER_ensures((EV_CALLED && (EV_HRET == CAT_RETURN_STATE_ERROR || EV_HRET < -1 || EV_HRET > CAT_RETURN_STATE_PRINT_CMD_LIST_OK || (EV_HRET == CAT_RETURN_STATE_PRINT_CMD_LIST_OK))) ==> p_ev_finished(self))
/* [C14:ev-hold-exit]    */ __CPROVER_ensures((EV_CALLED && (EV_HRET == CAT_RETURN_STATE_HOLD_EXIT_OK || EV_HRET == CAT_RETURN_STATE_HOLD_EXIT_ERROR)) ==> (p_ev_finished(self) && (self->hold_state_flag != 0 ==> (self->hold_exit_status != 0 && (OLD(self->hold_exit_status) == 0 && E.reent_hold == OLD(E.reent_hold) ==> ((self->hold_exit_status > 0) == (EV_HRET == CAT_RETURN_STATE_HOLD_EXIT_OK)))))))
/* [C10:ev-var-read-fail]*/ __CPROVER_ensures((E.vr_calls == OLD(E.vr_calls) + 1 && E.v_ret != 0) ==> p_ev_finished(self))
/* [C10:ev-after-flush]  */ __CPROVER_ensures((EV_OLD_ST == CAT_UNSOLICITED_STATE_AFTER_FLUSH_OK || EV_OLD_ST == CAT_UNSOLICITED_STATE_AFTER_FLUSH_RESET) ==> p_ev_finished(self))
/* ---- C13: the queue is consumed only by an idle event machine, one event per step, head first ---- */
#define RING_CNT(s) (UF(s).unsolicited_cmd_buffer_items_count)
#define RING_HEAD(s) (UF(s).unsolicited_cmd_buffer_head)
/* ---- C19: TEST response of an unsolicited event, text level ---- */
/* [C19:ev-test-token-step] */ __CPROVER_ensures(EV_OLD_ST == CAT_UNSOLICITED_STATE_FORMAT_TEST_ARGS ==> pe_c19_test_step(self))
/* [C19:ev-test-restart] */ __CPROVER_ensures(EV_OLD_ST == CAT_UNSOLICITED_STATE_AFTER_FLUSH_FORMAT_TEST_ARGS ==> pe_c19_test_start(self, g_old.unsolicited_fsm.cmd))
/* [C19:ev-test-start]   */ __CPROVER_ensures((EV_OLD_ST == CAT_UNSOLICITED_STATE_IDLE && OLD(RING_CNT(self)) > 0 && g_old.unsolicited_fsm.unsolicited_cmd_buffer[g_old.unsolicited_fsm.unsolicited_cmd_buffer_head].type == CAT_CMD_TYPE_TEST) ==> pe_c19_test_start(self, g_old.unsolicited_fsm.unsolicited_cmd_buffer[g_old.unsolicited_fsm.unsolicited_cmd_buffer_head].cmd))
/* [C13:ev-pop-only-idle]*/ __CPROVER_ensures((EV_OLD_ST != CAT_UNSOLICITED_STATE_IDLE && E.reent_trig == OLD(E.reent_trig)) ==> (RING_CNT(self) == OLD(RING_CNT(self)) && RING_HEAD(self) == OLD(RING_HEAD(self))))
/* [C13:ev-pop-head]     */ __CPROVER_ensures((EV_OLD_ST == CAT_UNSOLICITED_STATE_IDLE && OLD(RING_CNT(self)) > 0 && E.reent_trig == OLD(E.reent_trig)) ==> (RING_CNT(self) == OLD(RING_CNT(self)) - 1 && RING_HEAD(self) == (OLD(RING_HEAD(self)) + 1) % H_RING))
/* [C13:ev-idle-empty]   */ __CPROVER_ensures((EV_OLD_ST == CAT_UNSOLICITED_STATE_IDLE && OLD(RING_CNT(self)) == 0) ==> (p_ev_finished(self) && RET == CAT_STATUS_OK && RING_CNT(self) == 0))
/* [C13:ev-in-progress]  */ __CPROVER_ensures((EV_OLD_ST == CAT_UNSOLICITED_STATE_IDLE && OLD(RING_CNT(self)) > 0 && !p_ev_finished(self)) ==> (UF(self).cmd == OLD(UF(self).unsolicited_cmd_buffer[UF(self).unsolicited_cmd_buffer_head].cmd) && UF(self).cmd_type == OLD(UF(self).unsolicited_cmd_buffer[UF(self).unsolicited_cmd_buffer_head].type)))
/* [C13:ev-cmd-stable]   */ __CPROVER_ensures((EV_OLD_ST != CAT_UNSOLICITED_STATE_IDLE && !p_ev_finished(self)) ==> (UF(self).cmd == OLD(UF(self).cmd) && UF(self).cmd_type == OLD(UF(self).cmd_type)))
/* ---- C15, liveness half: the event machine's variant never grows and shrinks unless it waits for the output ---- */
/* [C15:ev-variant]      */ __CPROVER_ensures(EV_FAIR ==> (v_phi_ev(self) < v_phi_ev(&g_old) || (v_phi_ev(&g_old) == 0 && v_phi_ev(self) == 0) || (EV_BLOCKED && v_phi_ev(self) == v_phi_ev(&g_old))))
/* [ENV:ev-ghost]        */ __CPROVER_ensures(EV_GHOST_CLAUSE)
;

/* ---------------------------------------------------------------------------------------------
 * cat_service: one step of both machines
 * ------------------------------------------------------------------------------------------- */
cat_status cat_service(struct cat_object *self)
__CPROVER_requires(self == &h_obj && inv_wf(self) && inv_ring(self) && inv_ev(self) && inv_excl(self) && inv_hold(self) && inv_live(self))
/* standing assumption: size_t counters do not wrap (a line is shorter than 2^64 bytes) */
__CPROVER_requires(self->length < (size_t)-1)
__CPROVER_assigns(*self, E, EL, G_EV, G_HES, G_UBYTE, __CPROVER_object_whole(g_typed), g_sat, g_ndig, g_size, g_nesc, g_src, g_esc, __CPROVER_object_whole(h_buf), __CPROVER_object_whole(h_vdata) SERVICE_EXTRA_ASSIGNS)
/* [INV:wf]              */ __CPROVER_ensures(inv_wf(self))
/* [INV:ring]            */ __CPROVER_ensures(inv_ring(self))
/* [INV:ev]              */ __CPROVER_ensures(inv_ev(self))
/* [C11,C18:excl]        */ __CPROVER_ensures(inv_excl(self))
/* [C14,C18:hold]        */ __CPROVER_ensures(inv_hold(self))
/* [INV:live]            */ __CPROVER_ensures(inv_live(self))
/* ---- C01: input is consumed only while no result code is owed; phases move forward only ---- */
/* [C01,C12,C14:read-only-in-reading-state] */ __CPROVER_ensures(AT_READS == ((RAN && p_reading_state(g_old.state)) ? 1 : 0))
/* [C01:phase-blank]     */ __CPROVER_ensures((RAN && p_phase(&g_old) == PH_BLANK) ==> (p_phase(self) == PH_BLANK || (p_phase(self) == PH_INLINE && E.rd_avail && E.rd_ch != '\n' && E.rd_ch != '\r')))
/* [C01:blank-silent]    */ __CPROVER_ensures((RAN && p_phase(&g_old) == PH_BLANK) ==> (AT_WRITES == 0 && AT_HCALLS == 0))
/* [C01:phase-inline]    */ __CPROVER_ensures((RAN && p_phase(&g_old) == PH_INLINE && p_phase(self) != PH_INLINE) ==> ((p_phase(self) == PH_OWED || p_phase(self) == PH_ACKING) && AT_READS == 1 && E.rd_avail && E.rd_ch == '\n'))
/* [C01:phase-owed]      */ __CPROVER_ensures((RAN && p_phase(&g_old) == PH_OWED) ==> (p_phase(self) == PH_OWED || p_phase(self) == PH_ACKING))
/* [C01:ack-text]        */ __CPROVER_ensures((RAN && p_phase(&g_old) != PH_ACKING && p_phase(self) == PH_ACKING) ==> (p_ack_ok_started(self) || p_ack_error_started(self)))
/* [C01:phase-acking]    */ __CPROVER_ensures((RAN && p_phase(&g_old) == PH_ACKING) ==> (p_phase(self) == PH_ACKING || (p_phase(self) == PH_BLANK && g_old.state == CAT_STATE_AFTER_FLUSH_RESET)))
/* [C01,C11:ack-frozen]  */ __CPROVER_ensures((RAN && p_phase(&g_old) == PH_ACKING) ==> (p_abuf_unchanged() && AT_HCALLS == 0))
/* ---- C11/C12: output discipline ---- */
/* [C01,C11,C12:one-write] */ __CPROVER_ensures(AT_WRITES == 0 || (AT_WRITES == 1 && RAN && g_old.state == CAT_STATE_FLUSH_IO_WRITE))
/* [C01,C11,C12:write-byte] */ __CPROVER_ensures(AT_WRITES == 1 ==> (E.wr_ch == g_old.write_buf[g_old.position] && E.wr_ch != 0 && self->state == CAT_STATE_FLUSH_IO_WRITE && self->write_buf == g_old.write_buf && self->write_state == g_old.write_state && self->position == g_old.position + (E.wr_ok ? 1 : 0)))
/* [C12,C15:read-stutter] */ __CPROVER_ensures((RAN && p_reading_state(g_old.state) && !E.rd_avail) ==> (p_at_same(&g_old, self, 1) && p_abuf_unchanged() && p_vdata_unchanged() && AT_HCALLS == 0 && AT_WRITES == 0 && AT_VWCALLS == 0 && AT_VRCALLS == 0))
/* [C12:write-stutter]   */ __CPROVER_ensures((AT_WRITES == 1 && !E.wr_ok) ==> (p_at_same(&g_old, self, 0) && p_abuf_unchanged()))
/* ---- C15: OK only when quiescent ---- */
/* [C15:ret]             */ __CPROVER_ensures(RET == CAT_STATUS_OK || RET == CAT_STATUS_BUSY || RET == CAT_STATUS_ERROR_MUTEX_LOCK || RET == CAT_STATUS_ERROR_MUTEX_UNLOCK)
/* [C15:ok-quiescent]    */ __CPROVER_ensures(RET == CAT_STATUS_OK ==> (p_ring_empty(self) && UST(self) == CAT_UNSOLICITED_STATE_IDLE && p_reading_state(self->state) && self->state == g_old.state && AT_READS == 1 && !E.rd_avail && AT_WRITES == 0 && AT_HCALLS == 0))
/* ---- C15, liveness half: every BUSY call under a fair environment decreases the variant; variant 0 is quiescence ---- */
/* [C15:variant]         */ __CPROVER_ensures((RAN && UNLOCK_OK && ALL_FAIR && g_old.state != CAT_STATE_HOLD && self->state != CAT_STATE_HOLD) ==> (PHI(self) < PHI(&g_old) || PHI(&g_old) == 0))
/* [C15:variant-zero]    */ __CPROVER_ensures((RAN && UNLOCK_OK && ALL_FAIR && g_old.state != CAT_STATE_HOLD && PHI(&g_old) == 0) ==> (RET == CAT_STATUS_OK && PHI(self) == 0))
/* ---- C16: mutex discipline ---- */
/* [C16:lock-balance]    */ __CPROVER_ensures(g_old.mutex == NULL ? (EL.lock_calls == 0 && EL.unlock_calls == 0) : (EL.lock_calls == 1 && EL.unlock_calls == (EL.lock_ret == 0 ? 1 : 0) && !EL.lock_err && !EL.held))
/* [C16:callbacks-locked]*/ __CPROVER_ensures(!E.cb_unlocked)
/* [C16:lock-fail]       */ __CPROVER_ensures((g_old.mutex != NULL && EL.lock_ret != 0) ==> (RET == CAT_STATUS_ERROR_MUTEX_LOCK && p_at_same(&g_old, self, 0) && E.rd_calls == 0 && E.wr_calls == 0 && E.h_calls == 0 && E.vr_calls == 0 && E.vw_calls == 0))
/* [C16:unlock-fail]     */ __CPROVER_ensures((g_old.mutex != NULL && EL.lock_ret == 0 && EL.unlock_ret != 0) ==> RET == CAT_STATUS_ERROR_MUTEX_UNLOCK)
/* [C16:nothing-outside] */ __CPROVER_ensures((g_old.mutex != NULL && EL.lock_ret == 0) ==> (p_at_same(&g_old, &EL.at_lock, 0) && p_at_same(&EL.at_unlock, self, 0)))
/* ---- C02 (dispatch part): at most one command handler per step, of the kind the state stands for, on the resolved command ---- */
/* [C02,C09,C10:one-handler] */ __CPROVER_ensures(AT_HCALLS == 0 || (AT_HCALLS == 1 && RAN && p_loop_kind(g_old.state) >= 0))
/* [C02,C09:handler-kind] */ __CPROVER_ensures(AT_HCALLS == 1 ==> (E.h_kind == p_loop_kind(g_old.state) && E.h_cmd == g_old.cmd))
/* [C10:loop-calls]      */ __CPROVER_ensures((RAN && p_loop_kind(g_old.state) >= 0) ==> AT_HCALLS == 1)
/* [C02,C09:var-callback-current] */ __CPROVER_ensures((AT_VWCALLS + AT_VRCALLS > 0) ==> (AT_VWCALLS + AT_VRCALLS == 1 && E.v_var == g_old.var && ((AT_VWCALLS == 1 && g_old.state == CAT_STATE_PARSE_WRITE_ARGS) || (AT_VRCALLS == 1 && g_old.state == CAT_STATE_FORMAT_READ_ARGS))))
/* [C04,C05,C08,C09:vars-frame] */ __CPROVER_ensures(g_old.state == CAT_STATE_PARSE_WRITE_ARGS ? p_vdata_unchanged_except(p_cmd_index(g_old.cmd)) : p_vdata_unchanged())
/* ---- C02/C09: name resolution against the statement's own definition (p_spec / p_resolve over the ghost typed text) ---- */
#define SEARCH_STEP (RAN && g_old.state == CAT_STATE_SEARCH_COMMAND)
/* [C02,C09:search-found]  */ __CPROVER_ensures((SEARCH_STEP && self->state == CAT_STATE_COMMAND_FOUND) ==> (p_resolve(g_old.length) < H_NC && self->cmd == &h_cmds[p_resolve(g_old.length)]))
/* [C02,C09:search-none]   */ __CPROVER_ensures((SEARCH_STEP && (self->state == CAT_STATE_COMMAND_NOT_FOUND || self->state == CAT_STATE_ERROR)) ==> p_resolve(g_old.length) == H_NC)
/* [C02:search-states]     */ __CPROVER_ensures(SEARCH_STEP ==> (self->state == CAT_STATE_SEARCH_COMMAND || self->state == CAT_STATE_COMMAND_FOUND || self->state == CAT_STATE_COMMAND_NOT_FOUND || self->state == CAT_STATE_ERROR) && AT_HCALLS == 0)
/* [C02:suffix]            */ __CPROVER_ensures((RAN && g_old.state == CAT_STATE_PARSE_COMMAND_CHAR && E.rd_avail && g_old.length > 0) ==> ((E.rd_ch == '?') ? (self->cmd_type == CAT_CMD_TYPE_READ && self->state == CAT_STATE_WAIT_READ_ACKNOWLEDGE) : (E.rd_ch == '=') ? (self->cmd_type == CAT_CMD_TYPE_WRITE && self->state == CAT_STATE_SEARCH_COMMAND) : (self->cmd_type == CAT_CMD_TYPE_RUN)))
/* [C02:implicit-write]    */ __CPROVER_ensures((RAN && g_old.state == CAT_STATE_UPDATE_COMMAND_STATE && g_old.index + 1 == g_ncmds) ==> (p_implicit_hit_below(g_ncmds, g_old.length) ? (self->state == CAT_STATE_SEARCH_COMMAND && self->cmd_type == CAT_CMD_TYPE_WRITE) : self->state == CAT_STATE_PARSE_COMMAND_CHAR))
#define KEEPS_CMD(st) ((st) == CAT_STATE_COMMAND_FOUND || (st) == CAT_STATE_PARSE_COMMAND_ARGS || (st) == CAT_STATE_WAIT_TEST_ACKNOWLEDGE || (st) == CAT_STATE_PARSE_WRITE_ARGS || (st) == CAT_STATE_FORMAT_READ_ARGS || (st) == CAT_STATE_FORMAT_TEST_ARGS || (st) == CAT_STATE_WRITE_LOOP || (st) == CAT_STATE_READ_LOOP || (st) == CAT_STATE_TEST_LOOP || (st) == CAT_STATE_RUN_LOOP || (st) == CAT_STATE_HOLD || (st) == CAT_STATE_AFTER_FLUSH_OK || (st) == CAT_STATE_AFTER_FLUSH_FORMAT_READ_ARGS || (st) == CAT_STATE_AFTER_FLUSH_FORMAT_TEST_ARGS || (((st) == CAT_STATE_FLUSH_IO_WRITE_WAIT || (st) == CAT_STATE_FLUSH_IO_WRITE) && g_old.write_state_after != CAT_STATE_PRINT_CMD))
/* [C02,C09:cmd-stable]    */ __CPROVER_ensures((RAN && KEEPS_CMD(g_old.state)) ==> self->cmd == g_old.cmd)
/* [C02:type-stable]       */ __CPROVER_ensures((RAN && KEEPS_CMD(g_old.state) && self->state != CAT_STATE_PRINT_CMD && !(g_old.state == CAT_STATE_PARSE_COMMAND_ARGS && self->state == CAT_STATE_WAIT_TEST_ACKNOWLEDGE)) ==> self->cmd_type == g_old.cmd_type)
/* ---- C06: argument collection and hand-over ---- */
#define PCA_BYTE   (RAN && g_old.state == CAT_STATE_PARSE_COMMAND_ARGS && E.rd_avail)
#define PCA_TESTQ  (g_old.length == 0 && E.rd_ch == '?' && (g_old.cmd->test != NULL || p_has_vars(g_old.cmd)) && !g_old.cmd->implicit_write)
/* [C06:collect-fits]    */ __CPROVER_ensures((PCA_BYTE && E.rd_ch != '\n' && E.rd_ch != '\r' && !PCA_TESTQ && g_old.length + 1 < H_CAPA) ==> (self->state == CAT_STATE_PARSE_COMMAND_ARGS && self->length == g_old.length + 1 && ABUFP[g_old.length] == E.rd_ch && ABUFP[self->length] == 0 && p_abuf_prefix_unchanged(g_old.length)))
/* [C01,C06,C20:collect-overlong] */ __CPROVER_ensures((PCA_BYTE && E.rd_ch != '\n' && E.rd_ch != '\r' && !PCA_TESTQ && g_old.length + 1 >= H_CAPA) ==> self->state == CAT_STATE_ERROR)
/* [C06,C20:collect-cr]  */ __CPROVER_ensures((PCA_BYTE && E.rd_ch == '\r') ==> (self->state == CAT_STATE_PARSE_COMMAND_ARGS && self->length == g_old.length && p_abuf_unchanged() && self->cr_flag != 0))
/* [C02:test-suffix]     */ __CPROVER_ensures((PCA_BYTE && E.rd_ch != '\n' && E.rd_ch != '\r') ==> ((self->state == CAT_STATE_WAIT_TEST_ACKNOWLEDGE) == PCA_TESTQ && (PCA_TESTQ ==> self->cmd_type == CAT_CMD_TYPE_TEST)))
/* [C06:write-handler-args] */ __CPROVER_ensures((AT_HCALLS == 1 && E.h_kind == E_KIND_WRITE) ==> (E.h_data == (const uint8_t *)h_buf && E.h_size == g_old.length && E.h_args == g_old.index && E.h_nul_ok))
/* [C06:args-frozen]     */ __CPROVER_ensures((RAN && g_old.state == CAT_STATE_PARSE_WRITE_ARGS) ==> (p_abuf_unchanged() || p_ack_ok_started(self) || p_ack_error_started(self)))
/* [C06:rt-handler-args] */ __CPROVER_ensures((AT_HCALLS == 1 && (E.h_kind == E_KIND_READ || E.h_kind == E_KIND_TEST)) ==> (E.h_data == (const uint8_t *)h_buf && E.h_size == g_old.position && E.h_max == H_CAPA && E.h_nul_ok))
/* [C06:error-state-inert] */ __CPROVER_ensures((RAN && g_old.state == CAT_STATE_ERROR) ==> (AT_HCALLS == 0 && AT_VWCALLS == 0 && AT_VRCALLS == 0 && (self->state == CAT_STATE_ERROR || (E.rd_avail && E.rd_ch == '\n' && p_ack_error_started(self)))))
/* ---- C08/C09: refusal of request forms the command does not offer (dispatcher) ---- */
#define PCA_LF     (PCA_BYTE && E.rd_ch == '\n')
/* [C04,C05,C08,C09:write-dispatch] */ __CPROVER_ensures(PCA_LF ==> (g_old.cmd->only_test ? p_ack_error_started(self) : p_writable(g_old.cmd) ? (p_no_nul_before((const char *)g_oldbuf, g_old.length, H_CAPA) ? (self->state == CAT_STATE_PARSE_WRITE_ARGS && self->index == 0 && self->position == 0 && self->var == &g_old.cmd->var[0]) : p_ack_error_started(self)) : g_old.cmd->write != NULL ? (self->state == CAT_STATE_WRITE_LOOP && self->index == 0) : p_ack_error_started(self)))
#define CF_STEP    (RAN && g_old.state == CAT_STATE_COMMAND_FOUND)
/* [C08,C09:run-dispatch]  */ __CPROVER_ensures((CF_STEP && g_old.cmd_type == CAT_CMD_TYPE_RUN) ==> ((!g_old.cmd->only_test && g_old.cmd->run != NULL) ? self->state == CAT_STATE_RUN_LOOP : p_ack_error_started(self)))
/* [C08,C09:read-dispatch] */ __CPROVER_ensures((CF_STEP && g_old.cmd_type == CAT_CMD_TYPE_READ) ==> ((!g_old.cmd->only_test && (p_readable(g_old.cmd) || g_old.cmd->read != NULL)) ? (p_reformat_read(self) && (self->state == CAT_STATE_FORMAT_READ_ARGS) == (p_readable(g_old.cmd) && !p_ack_error_started(self))) : p_ack_error_started(self)))
/* [C06:write-collect-start] */ __CPROVER_ensures((CF_STEP && g_old.cmd_type == CAT_CMD_TYPE_WRITE) ==> (self->state == CAT_STATE_PARSE_COMMAND_ARGS && self->length == 0 && ABUFP[0] == 0))
/* ---- C10/C14: return-code table of solicited handlers ---- */
#define HRET       (E.h_ret)
#define HCALL(k)   (AT_HCALLS == 1 && E.h_kind == (k))
#define HANY       (AT_HCALLS == 1)
#define HRT        (AT_HCALLS == 1 && (E.h_kind == E_KIND_READ || E.h_kind == E_KIND_TEST))
#define HWR        (AT_HCALLS == 1 && (E.h_kind == E_KIND_WRITE || E.h_kind == E_KIND_RUN))
/* [C10:ok]              */ __CPROVER_ensures((HANY && HRET == CAT_RETURN_STATE_OK) ==> p_ack_ok_started(self))
/* [C10:error]           */ __CPROVER_ensures((HANY && (HRET == CAT_RETURN_STATE_ERROR || HRET < -1 || HRET > CAT_RETURN_STATE_PRINT_CMD_LIST_OK)) ==> p_ack_error_started(self))
/* [C10:rt-data-ok]      */ __CPROVER_ensures((HRT && HRET == CAT_RETURN_STATE_DATA_OK) ==> p_unit_started(self, CAT_STATE_AFTER_FLUSH_OK))
/* [C10:rt-data-next]    */ __CPROVER_ensures((HRT && HRET == CAT_RETURN_STATE_DATA_NEXT) ==> p_unit_started(self, E.h_kind == E_KIND_READ ? CAT_STATE_AFTER_FLUSH_FORMAT_READ_ARGS : CAT_STATE_AFTER_FLUSH_FORMAT_TEST_ARGS))
/* [C10:rt-next]         */ __CPROVER_ensures((HRT && HRET == CAT_RETURN_STATE_NEXT) ==> (E.h_kind == E_KIND_READ ? p_reformat_read(self) : p_reformat_test(self)))
/* [C10:wr-ok]           */ __CPROVER_ensures((HWR && HRET == CAT_RETURN_STATE_DATA_OK) ==> p_ack_ok_started(self))
/* [C10:wr-next]         */ __CPROVER_ensures((HWR && (HRET == CAT_RETURN_STATE_NEXT || HRET == CAT_RETURN_STATE_DATA_NEXT)) ==> (self->state == g_old.state && self->cmd == g_old.cmd && self->length == g_old.length && self->index == g_old.index && p_abuf_unchanged()))
/* [C10:list]            */ __CPROVER_ensures((HANY && HRET == CAT_RETURN_STATE_PRINT_CMD_LIST_OK) ==> ((E.h_kind == E_KIND_TEST || E.h_kind == E_KIND_RUN) ? p_cmd_list_started(self) : p_ack_error_started(self)))
/* [C10:wr-invalid]      */ __CPROVER_ensures((HWR && (HRET == CAT_RETURN_STATE_HOLD_EXIT_OK || HRET == CAT_RETURN_STATE_HOLD_EXIT_ERROR)) ==> p_ack_error_started(self))
/* [C14:hold-enter]      */ __CPROVER_ensures((HANY && HRET == CAT_RETURN_STATE_HOLD) ==> p_hold_entered(self))
/* [C10:after-flush-ok]  */ __CPROVER_ensures((RAN && g_old.state == CAT_STATE_AFTER_FLUSH_OK) ==> p_ack_ok_started(self))
/* [C10:after-flush-fmt] */ __CPROVER_ensures((RAN && g_old.state == CAT_STATE_AFTER_FLUSH_FORMAT_READ_ARGS) ==> p_reformat_read(self))
/* [C10:after-flush-fmt-test] */ __CPROVER_ensures((RAN && g_old.state == CAT_STATE_AFTER_FLUSH_FORMAT_TEST_ARGS) ==> p_reformat_test(self))
/* [C04,C05,C10:var-write-fail] */ __CPROVER_ensures((AT_VWCALLS == 1 && E.v_ret != 0) ==> p_ack_error_started(self))
/* [C10:var-read-fail]   */ __CPROVER_ensures((AT_VRCALLS == 1 && E.v_ret != 0) ==> p_ack_error_started(self))
/* ---- C19: TEST response and command list ---- */
/* [C19:test-token-step]  */ __CPROVER_ensures((RAN && g_old.state == CAT_STATE_FORMAT_TEST_ARGS) ==> p_c19_test_step(self))
/* [C19:test-start]       */ __CPROVER_ensures((RAN && (g_old.state == CAT_STATE_AFTER_FLUSH_FORMAT_TEST_ARGS || (g_old.state == CAT_STATE_WAIT_TEST_ACKNOWLEDGE && E.rd_avail && E.rd_ch == '\n'))) ==> p_c19_test_start(self))
/* [C19:list-step]        */ __CPROVER_ensures((RAN && g_old.state == CAT_STATE_PRINT_CMD) ==> p_c19_list_step(self))
/* ---- C14: hold ---- */
#define HOLD_STEP  (RAN && g_old.state == CAT_STATE_HOLD)
#define HES        (G_HES)  /* release request as seen by the command machine: after the event machine's step */
/* [C14:hold-wait]       */ __CPROVER_ensures((HOLD_STEP && HES == 0) ==> (p_at_same_x(&g_old, self, 0, 1) && self->hold_exit_status == 0 && p_abuf_unchanged() && (UNLOCK_OK ==> RET == CAT_STATUS_BUSY)))
/* [C14:hold-release-ok] */ __CPROVER_ensures((HOLD_STEP && HES > 0) ==> (p_ack_ok_started(self) && self->hold_state_flag == 0))
/* [C14:hold-release-err]*/ __CPROVER_ensures((HOLD_STEP && HES < 0) ==> (p_ack_error_started(self) && self->hold_state_flag == 0))
/* [C14:hold-only-from-handler] */ __CPROVER_ensures((self->state == CAT_STATE_HOLD && g_old.state != CAT_STATE_HOLD) ==> (HANY && HRET == CAT_RETURN_STATE_HOLD))
/* ---- C20: line ending mirrors the request ---- */
/* [C20:cr-set]          */ __CPROVER_ensures((self->cr_flag != 0 && g_old.cr_flag == 0) ==> (AT_READS == 1 && E.rd_avail && E.rd_ch == '\r' && g_old.state != CAT_STATE_IDLE))
/* [C20:cr-seen]         */ __CPROVER_ensures((AT_READS == 1 && E.rd_avail && E.rd_ch == '\r' && g_old.state != CAT_STATE_IDLE) ==> self->cr_flag != 0)
/* [C20:cr-stable]       */ __CPROVER_ensures((g_old.cr_flag != 0 && g_old.state != CAT_STATE_AFTER_FLUSH_RESET) ==> self->cr_flag != 0)
/* [C20:cr-reset]        */ __CPROVER_ensures((RAN && g_old.state == CAT_STATE_AFTER_FLUSH_RESET) ==> (self->state == CAT_STATE_IDLE && self->cr_flag == 0 && self->cmd == NULL))
/* [C11,C20:unit-newline]*/ __CPROVER_ensures((self->state == CAT_STATE_FLUSH_IO_WRITE_WAIT && g_old.state != CAT_STATE_FLUSH_IO_WRITE_WAIT) ==> (self->position == 0 && ((self->write_state == V_WS_BEFORE && self->write_buf == &h_crlf[self->cr_flag ? 0 : 1]) || (self->write_state == V_WS_AFTER && self->write_buf == ABUFP && g_old.state == CAT_STATE_PRINT_CMD))))
/* [C01,C11,C20:unit-phases]*/ __CPROVER_ensures((RAN && g_old.state == CAT_STATE_FLUSH_IO_WRITE && AT_WRITES == 0) ==> (g_old.write_buf[g_old.position] == 0 && p_abuf_unchanged() && ((g_old.write_state == V_WS_BEFORE && self->state == CAT_STATE_FLUSH_IO_WRITE && self->write_state == V_WS_MAIN && self->write_buf == ABUFP && self->position == 0) || (g_old.write_state == V_WS_MAIN && self->state == CAT_STATE_FLUSH_IO_WRITE && self->write_state == V_WS_AFTER && self->write_buf == &h_crlf[self->cr_flag ? 0 : 1] && self->position == 0) || (g_old.write_state == V_WS_AFTER && self->state == g_old.write_state_after))))
/* [C01,C11:flush-wait]  */ __CPROVER_ensures((RAN && g_old.state == CAT_STATE_FLUSH_IO_WRITE_WAIT) ==> (AT_WRITES == 0 && self->position == g_old.position && self->write_buf == g_old.write_buf && self->write_state == g_old.write_state && self->write_state_after == g_old.write_state_after && (self->state == CAT_STATE_FLUSH_IO_WRITE_WAIT || self->state == CAT_STATE_FLUSH_IO_WRITE) && p_abuf_unchanged()))
/* [C03,C11:halves-separate] */ __CPROVER_ensures((RAN && g_w < H_CAPU) ==> UBUFP[g_w] == G_UBYTE)
;

#endif
