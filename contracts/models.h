/* Assumed contracts (models) of libc callees CBMC has no usable model for.  Trusted, not proved;
 * replay/libc_check.c tests them against the real libc.
 *
 * snprintf: only the six format strings used by /repo/src/cat.c are accepted (anything else fails
 * an assertion).  Semantics modelled: at most n bytes written at s, NUL-terminated when n > 0,
 * returns the untruncated length; the text is the canonical numeral of the argument.  Decimal
 * numerals are specified declaratively (digits whose Horner value is the argument, no leading
 * zero), so the solver never divides. */
#ifndef CAT_VERIF_MODELS_H
#define CAT_VERIF_MODELS_H
#include <stdarg.h>
#include <stdio.h>    /* before the snprintf macro below, so that the libc declaration stays untouched */
#include <stddef.h>

#ifndef NATIVE_REPLAY
unsigned char nondet_model_uchar(void);
size_t nondet_model_size(void);

static int model_fmt_kind(const char *f)
{
        if (f[0] == '%' && f[1] == 'd' && f[2] == 0) return 0;
        if (f[0] == '%' && f[1] == 'u' && f[2] == 0) return 1;
        if (f[0] == '%' && f[1] == '0' && f[2] == '2' && f[3] == 'X' && f[4] == 0) return 2;
        if (f[0] == '0' && f[1] == 'x' && f[2] == '%' && f[3] == '0' && f[5] == 'X' && f[6] == 0) {
                if (f[4] == '2') return 3;
                if (f[4] == '4') return 4;
                if (f[4] == '8') return 5;
        }
        return -1;
}

void *memchr(const void *s, int c, size_t n)
{
        const unsigned char *p = (const unsigned char *)s;
        size_t i;
        for (i = 0; i < n; i++)
                if (p[i] == (unsigned char)c)
                        return (void *)(p + i);
        return NULL;
}

/* every call in cat.c has the shape snprintf(buf, len, fmt, (uint32_t)val); the proof build maps it
 * to this fixed-arity model (dfcc cannot pass its write set through a variadic call) */
/* dispatch on the number of arguments: the shape used by cat.c goes to the exact model, any other use of
 * snprintf to a sound over-approximation (arbitrary NUL-terminated text, arbitrary return value) */
int nondet_model_int(void);
int model_snprintf_other(char *s, size_t n)
{
        size_t i, z;
        __CPROVER_assert(n == 0 || __CPROVER_w_ok(s, n), "snprintf: n bytes are writable at s");
        if (n > 0) {
                for (i = 0; i < n && i < 4096; i++)
                        s[i] = (char)nondet_model_uchar();
                z = nondet_model_size();
                __CPROVER_assume(z < n);
                s[z] = 0;
        }
        return nondet_model_int();
}
#define MODEL_SNPRINTF_PICK(_1, _2, _3, _4, _5, _6, _7, _8, NAME, ...) NAME
#define MODEL_SNPRINTF_1(s, n, fmt, v) model_snprintf((s), (n), (fmt), (v))
#define MODEL_SNPRINTF_X(s, n, ...) model_snprintf_other((s), (n))
#define snprintf(s, n, ...) MODEL_SNPRINTF_PICK(__VA_ARGS__, MODEL_SNPRINTF_X, MODEL_SNPRINTF_X, MODEL_SNPRINTF_X, MODEL_SNPRINTF_X, MODEL_SNPRINTF_X, MODEL_SNPRINTF_X, MODEL_SNPRINTF_1, MODEL_SNPRINTF_X)(s, n, __VA_ARGS__)
int model_snprintf(char *s, size_t n, const char *fmt, unsigned int v)
{
        char t[16];
        size_t len = 0, i;
        int kind = model_fmt_kind(fmt);
        __CPROVER_assert(kind >= 0, "snprintf model: format string is one of %d %u %02X 0x%02X 0x%04X 0x%08X");
        __CPROVER_assert(n == 0 || __CPROVER_w_ok(s, n), "snprintf: n bytes are writable at s");
        if (kind <= 1) {
                unsigned long long mag = v;
                size_t off = 0;
                if (kind == 0 && (int)v < 0) {
                        t[0] = '-';
                        off = 1;
                        mag = (unsigned long long)(-(long long)(int)v);
                }
                size_t nd = nondet_model_size();
                __CPROVER_assume(nd >= 1 && nd <= 10);
                unsigned long long h = 0;
                for (i = 0; i < 10; i++) {
                        if (i < nd) {
                                unsigned char d = nondet_model_uchar();
                                __CPROVER_assume(d <= 9);
                                __CPROVER_assume(!(i == 0 && d == 0 && nd > 1));
                                t[off + i] = (char)('0' + d);
                                h = h * 10ULL + d;
                        }
                }
                __CPROVER_assume(h == mag);
                len = off + nd;
        } else {
                size_t w = (kind == 2 || kind == 3) ? 2 : (kind == 4) ? 4 : 8;
                size_t off = 0;
                __CPROVER_assert(w == 8 || v < (1u << (4 * w)), "snprintf model: value fits the minimum field width (wider values not modelled)");
                if (kind >= 3) { t[0] = '0'; t[1] = 'x'; off = 2; }
                for (i = 0; i < 8; i++) {
                        if (i < w) {
                                unsigned int nib = (v >> (4 * (w - 1 - i))) & 0xFu;
                                t[off + i] = (char)(nib < 10 ? '0' + nib : 'A' + (nib - 10));
                        }
                }
                len = off + w;
        }
        if (n > 0) {
                for (i = 0; i < 12; i++)
                        if (i < len && i + 1 < n)
                                s[i] = t[i];
                s[(len < n) ? len : n - 1] = 0;
        }
        return (int)len;
}
#endif
#endif
