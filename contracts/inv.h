/* The global invariant Inv of the parser object (DESIGN.md section 4), as side-effect free C
 * predicates over the public struct cat_object and the bounded descriptor shape of harness/l1_env.h.
 * Inv = WF && RING && EXCL && HOLD && EV && LIVE[state].  It is the requires and the ensures of every
 * step contract, the ensures of cat_init, and is preserved by every other public API function. */
#ifndef CAT_VERIF_INV_H
#define CAT_VERIF_INV_H

/* ---- vocabulary ---- */
#define ST(s)   ((s)->state)
#define UST(s)  ((s)->unsolicited_fsm.state)
#define UF(s)   ((s)->unsolicited_fsm)
#define ABUFP   ((const char *)h_buf)
#define UBUFP   ((const char *)H_UBUF)

static size_t g_ncmds;               /* total number of registered commands (sum of group sizes) */

static _Bool p_cmd_in_pool(const struct cat_command *c)
{
        size_t i;
        for (i = 0; i < H_NC; i++)
                if (c == &h_cmds[i])
                        return 1;
        return 0;
}

static size_t p_cmd_index(const struct cat_command *c)
{
        size_t i;
        for (i = 0; i < H_NC; i++)
                if (c == &h_cmds[i])
                        return i;
        return H_NC;
}

/* the same pointer, rebuilt from the pool: a pointer field havocked by a replaced contract and
 * constrained only by equalities cannot be dereferenced soundly by CBMC, its rebuilt twin can */
static const struct cat_command *p_norm_cmd(const struct cat_command *c)
{
        size_t i;
        for (i = 0; i < H_NC; i++)
                if (c == &h_cmds[i])
                        return &h_cmds[i];
        return NULL;
}

/* command registered in the table (the first g_ncmds pool entries are the table, in order) */
static _Bool p_cmd_in_table(const struct cat_command *c)
{
        return p_cmd_in_pool(c) && p_cmd_index(c) < g_ncmds;
}

static _Bool p_has_vars(const struct cat_command *c)
{
        return c->var != NULL && c->var_num > 0;
}

static _Bool p_var_is_current(const struct cat_command *c, const struct cat_variable *v, size_t index)
{
        if (c->var == NULL || index >= c->var_num || index >= H_NV)
                return 0;
        return v == &c->var[index];
}

/* a NUL exists in b[from .. cap) */
static _Bool p_nul_from(const char *b, size_t from, size_t cap)
{
        size_t i;
        for (i = 0; i < H_MAXBUF; i++)
                if (i >= from && i < cap && b[i] == 0)
                        return 1;
        return 0;
}

/* no NUL in b[0 .. n) */
static _Bool p_no_nul_before(const char *b, size_t n, size_t cap)
{
        size_t i;
        for (i = 0; i < H_MAXBUF; i++)
                if (i < n && i < cap && b[i] == 0)
                        return 0;
        return 1;
}

/* the 44-character command-name alphabet after case folding */
static _Bool p_name_char(char ch)
{
        return (ch >= 'A' && ch <= 'Z') || (ch >= '0' && ch <= '9') || ch == '+' || ch == '#' || ch == '$' || ch == '@' || ch == '_' || ch == '%' || ch == '&';
}

/* ---- name resolution vocabulary (C02/C09), written from the property text ---- */
/* ghost g_typed (declared in l1_env.h): the first H_NL+1 name characters typed on the current line, case-folded */

static char p_upper(char ch)
{
        return (ch >= 'a' && ch <= 'z') ? (char)(ch - ('a' - 'A')) : ch;
}

/* command i of the table is invisible: its own flag or the flag of its group */
static _Bool p_disabled(size_t i)
{
        size_t g, base = 0;
        for (g = 0; g < H_NG; g++) {
                if (g < h_desc.cmd_group_num) {
                        if (i < base + h_grp[g].cmd_num)
                                return h_grp[g].disable || h_cmds[i].disable;
                        base += h_grp[g].cmd_num;
                }
        }
        return 1;
}

static size_t p_namelen(size_t i)
{
        size_t n;
        for (n = 0; n < H_NL; n++)
                if (h_names[i][n] == 0)
                        return n;
        return H_NL;
}

#define LANE_NOT_MATCH 0
#define LANE_PARTIAL 1
#define LANE_FULL 2
/* match state the statement requires for command i after k typed characters: invisible commands never match;
 * otherwise the typed text must be a case-insensitive prefix of the name (FULL when it is the whole name) */
static uint8_t p_spec(size_t i, size_t k)
{
        size_t j, len = p_namelen(i);
        if (p_disabled(i) || k > len)
                return LANE_NOT_MATCH;
        for (j = 0; j < H_NL; j++)
                if (j < k && p_upper(h_names[i][j]) != g_typed[j])
                        return LANE_NOT_MATCH;
        return (k == len) ? LANE_FULL : LANE_PARTIAL;
}

/* match state the library holds for command i (2 bits per command in the command half; invisible commands read as NOT_MATCH) */
static uint8_t p_lane(size_t i)
{
        return p_disabled(i) ? LANE_NOT_MATCH : (uint8_t)((h_buf[i >> 2] >> ((i & 3) << 1)) & 3);
}

static _Bool p_lanes_at(size_t from, size_t to, size_t k)
{
        size_t i;
        for (i = 0; i < H_NC; i++)
                if (i >= from && i < to && i < g_ncmds && p_lane(i) != p_spec(i, k))
                        return 0;
        return 1;
}

/* the command selected by the typed name: first exact match in registration order, else the unique proper-prefix match, else none (H_NC) */
static size_t p_resolve(size_t k)
{
        size_t i, np = 0, last = H_NC;
        for (i = 0; i < H_NC; i++)
                if (i < g_ncmds && p_spec(i, k) == LANE_FULL)
                        return i;
        for (i = 0; i < H_NC; i++)
                if (i < g_ncmds && p_spec(i, k) == LANE_PARTIAL) {
                        np++;
                        last = i;
                }
        return (np == 1) ? last : H_NC;
}

/* scan state of the resolution loop after looking at commands below idx */
static _Bool p_search_progress(const struct cat_object *s)
{
        size_t i, np = 0, last = H_NC;
        for (i = 0; i < H_NC; i++)
                if (i < s->index && i < g_ncmds) {
                        uint8_t v = p_spec(i, s->length);
                        if (v == LANE_FULL)
                                return 0;
                        if (v == LANE_PARTIAL) {
                                np++;
                                last = i;
                        }
                }
        return s->partial_cntr == np && s->cmd == ((last < H_NC) ? &h_cmds[last] : NULL);
}

/* an enabled implicit-write command below idx is matched exactly by the typed name */
static _Bool p_implicit_hit_below(size_t idx, size_t k)
{
        size_t i;
        for (i = 0; i < H_NC; i++)
                if (i < idx && i < g_ncmds && h_cmds[i].implicit_write && p_spec(i, k) == LANE_FULL)
                        return 1;
        return 0;
}

static _Bool p_is_newline_ptr(const char *p)
{
        return p == &h_crlf[0] || p == &h_crlf[1];
}

/* ---- WF: the object points at the (immutable) descriptor built by the harness ---- */
static _Bool inv_wf(const struct cat_object *s)
{
        return s->desc == &h_desc && s->io == &h_io && (s->mutex == NULL || s->mutex == &h_mutex) && s->commands_num == g_ncmds;
}

/* ---- RING: bounded FIFO of pending events ---- */
static _Bool inv_ring(const struct cat_object *s)
{
        size_t j;
        size_t head = UF(s).unsolicited_cmd_buffer_head, tail = UF(s).unsolicited_cmd_buffer_tail, cnt = UF(s).unsolicited_cmd_buffer_items_count;
        if (!(head < H_RING && tail < H_RING && cnt <= H_RING))
                return 0;
        if (tail != (head + cnt) % H_RING)
                return 0;
        for (j = 0; j < H_RING; j++) {
                if (j < cnt) {
                        const struct cat_unsolicited_cmd *it = &UF(s).unsolicited_cmd_buffer[(head + j) % H_RING];
                        if (!p_cmd_in_pool(it->cmd) || !(it->type == CAT_CMD_TYPE_READ || it->type == CAT_CMD_TYPE_TEST))
                                return 0;
                }
        }
        return 1;
}

/* ---- EXCL: the two machines never own the output at the same time ---- */
static _Bool inv_excl(const struct cat_object *s)
{
        return !(ST(s) == CAT_STATE_FLUSH_IO_WRITE && UST(s) == CAT_UNSOLICITED_STATE_FLUSH_IO_WRITE);
}

/* ---- HOLD: the flag mirrors the state ---- */
static _Bool inv_hold(const struct cat_object *s)
{
        return (s->hold_state_flag != 0) == (ST(s) == CAT_STATE_HOLD);
}

/* flush cursor of one machine: which text is being emitted, and a NUL is reachable inside it */
static _Bool p_flush_cursor_ok(const char *write_buf, int write_state, size_t position, const char *half, size_t cap)
{
        if (write_state == V_WS_BEFORE || write_state == V_WS_AFTER) {
                /* command-list lines are emitted "raw": main buffer with write_state AFTER */
                if (write_state == V_WS_AFTER && write_buf == half)
                        return p_nul_from(half, position, cap);
                if (write_buf == &h_crlf[0] && position <= 2) { /* fallthrough to main-buffer condition below */ }
                else if (write_buf == &h_crlf[1] && position <= 1) { }
                else return 0;
                /* before the payload is emitted the payload must be a NUL-terminated text inside its half */
                return (write_state == V_WS_AFTER) || p_nul_from(half, 0, cap);
        }
        if (write_state == V_WS_MAIN)
                return write_buf == half && p_nul_from(half, position, cap);
        return 0;
}

/* ---- EV: event machine ---- */
static _Bool inv_ev(const struct cat_object *s)
{
        const struct cat_command *c = p_norm_cmd(UF(s).cmd);
        if ((int)UST(s) < CAT_UNSOLICITED_STATE_IDLE || UST(s) > CAT_UNSOLICITED_STATE_AFTER_FLUSH_FORMAT_TEST_ARGS)
                return 0;
        if (UST(s) == CAT_UNSOLICITED_STATE_IDLE)
                return UF(s).cmd == NULL;
        if (c == NULL)
                return 0;
        if (!(UF(s).cmd_type == CAT_CMD_TYPE_READ || UF(s).cmd_type == CAT_CMD_TYPE_TEST))
                return 0;
        switch (UST(s)) {
        case CAT_UNSOLICITED_STATE_FORMAT_READ_ARGS:
        case CAT_UNSOLICITED_STATE_FORMAT_TEST_ARGS:
                return p_var_is_current(c, UF(s).var, UF(s).index) && UF(s).position <= H_CAPU;
        case CAT_UNSOLICITED_STATE_READ_LOOP:
                return c->read != NULL && UF(s).position < H_CAPU && UBUFP[UF(s).position] == 0;
        case CAT_UNSOLICITED_STATE_TEST_LOOP:
                return c->test != NULL && UF(s).position < H_CAPU && UBUFP[UF(s).position] == 0;
        case CAT_UNSOLICITED_STATE_FLUSH_IO_WRITE_WAIT:
        case CAT_UNSOLICITED_STATE_FLUSH_IO_WRITE:
                if (!(UF(s).write_state_after == CAT_UNSOLICITED_STATE_AFTER_FLUSH_OK ||
                      UF(s).write_state_after == CAT_UNSOLICITED_STATE_AFTER_FLUSH_FORMAT_READ_ARGS ||
                      UF(s).write_state_after == CAT_UNSOLICITED_STATE_AFTER_FLUSH_FORMAT_TEST_ARGS))
                        return 0;
                if (UF(s).write_state == V_WS_AFTER && UF(s).write_buf == UBUFP)
                        return 0; /* the event machine never emits raw lines */
                return p_flush_cursor_ok(UF(s).write_buf, UF(s).write_state, UF(s).position, UBUFP, H_CAPU);
        default:
                return 1;
        }
}

/* what the command machine needs in a state it is about to enter through write_state_after */
static _Bool p_live_after_flush(const struct cat_object *s, cat_state t)
{
        switch (t) {
        case CAT_STATE_AFTER_FLUSH_RESET:
        case CAT_STATE_AFTER_FLUSH_OK:
                return 1;
        case CAT_STATE_AFTER_FLUSH_FORMAT_READ_ARGS:
        case CAT_STATE_AFTER_FLUSH_FORMAT_TEST_ARGS:
                return p_cmd_in_table(s->cmd);
        case CAT_STATE_PRINT_CMD:
                if (!(s->index < g_ncmds && (s->length == 0 || s->length == 1) &&
                      (s->cmd_type == CAT_CMD_TYPE_NONE || (s->cmd_type >= CAT_CMD_TYPE_RUN && s->cmd_type <= CAT_CMD_TYPE__TOTAL_NUM))))
                        return 0;
                /* a command whose forms are being listed is visible; a test-only one is asked for its '=?' form only */
                if (s->cmd_type != CAT_CMD_TYPE_NONE && p_disabled(s->index))
                        return 0;
                if ((s->cmd_type == CAT_CMD_TYPE_RUN || s->cmd_type == CAT_CMD_TYPE_READ || s->cmd_type == CAT_CMD_TYPE_WRITE) && h_cmds[s->index].only_test)
                        return 0;
                return 1;
        default:
                return 0;
        }
}

/* ---- LIVE[state]: only the fields the state reads before writing them ---- */
static _Bool inv_live(const struct cat_object *s)
{
        const struct cat_command *c = s->cmd;
        if (s->implicit_write_flag != 0 && ST(s) != CAT_STATE_UPDATE_COMMAND_STATE)
                return 0;
#ifndef H_NO_LANES
        switch (ST(s)) {
        case CAT_STATE_PARSE_COMMAND_CHAR:
        case CAT_STATE_WAIT_READ_ACKNOWLEDGE:
        case CAT_STATE_SEARCH_COMMAND:
                if (!p_lanes_at(0, g_ncmds, s->length))
                        return 0;
                if (ST(s) == CAT_STATE_SEARCH_COMMAND && !p_search_progress(s))
                        return 0;
                break;
        case CAT_STATE_UPDATE_COMMAND_STATE:
                if (!(s->length >= 1 && p_lanes_at(0, s->index, s->length) && p_lanes_at(s->index, g_ncmds, s->length - 1)))
                        return 0;
                if (s->length - 1 <= H_NL && s->current_char != g_typed[s->length - 1])
                        return 0;
                if ((s->implicit_write_flag != 0) != p_implicit_hit_below(s->index, s->length))
                        return 0;
                break;
        case CAT_STATE_COMMAND_FOUND:
                if (!(p_resolve(s->length) < H_NC && c == &h_cmds[p_resolve(s->length)]))
                        return 0;
                break;
        default:
                break;
        }
#endif
        switch (ST(s)) {
        case CAT_STATE_ERROR:
        case CAT_STATE_PARSE_PREFIX:
                return 1;
        case CAT_STATE_IDLE:
                return s->cr_flag == 0 && c == NULL;
        case CAT_STATE_PARSE_COMMAND_CHAR:
                return s->index == 0 && s->cmd_type == CAT_CMD_TYPE_RUN;
        case CAT_STATE_UPDATE_COMMAND_STATE:
                return s->index < g_ncmds && s->length >= 1 && s->cmd_type == CAT_CMD_TYPE_RUN && p_name_char(s->current_char);
        case CAT_STATE_WAIT_READ_ACKNOWLEDGE:
                return s->length >= 1 && s->cmd_type == CAT_CMD_TYPE_READ;
        case CAT_STATE_SEARCH_COMMAND:
                return s->index < g_ncmds && (c == NULL || p_cmd_in_table(c)) &&
                       (s->cmd_type == CAT_CMD_TYPE_RUN || s->cmd_type == CAT_CMD_TYPE_READ || s->cmd_type == CAT_CMD_TYPE_WRITE) &&
                       ((s->cmd_type != CAT_CMD_TYPE_WRITE) == (s->current_char == '\n'));
        case CAT_STATE_COMMAND_FOUND:
                return p_cmd_in_table(c) &&
                       (s->cmd_type == CAT_CMD_TYPE_RUN || s->cmd_type == CAT_CMD_TYPE_READ || s->cmd_type == CAT_CMD_TYPE_WRITE) &&
                       ((s->cmd_type != CAT_CMD_TYPE_WRITE) == (s->current_char == '\n'));
        case CAT_STATE_COMMAND_NOT_FOUND:
                return s->current_char == '\n';
        case CAT_STATE_PARSE_COMMAND_ARGS:
                return p_cmd_in_table(c) && s->cmd_type == CAT_CMD_TYPE_WRITE && s->length < H_CAPA && ABUFP[s->length] == 0;
        case CAT_STATE_WAIT_TEST_ACKNOWLEDGE:
                return p_cmd_in_table(c) && s->cmd_type == CAT_CMD_TYPE_TEST;
        case CAT_STATE_PARSE_WRITE_ARGS:
                return p_cmd_in_table(c) && p_var_is_current(c, s->var, s->index) && s->length < H_CAPA && ABUFP[s->length] == 0 &&
                       s->position <= s->length && p_no_nul_before(ABUFP, s->length, H_CAPA);
        case CAT_STATE_FORMAT_READ_ARGS:
        case CAT_STATE_FORMAT_TEST_ARGS:
                return p_cmd_in_table(c) && p_var_is_current(c, s->var, s->index) && s->position <= H_CAPA;
        case CAT_STATE_WRITE_LOOP:
                return p_cmd_in_table(c) && c->write != NULL && s->length < H_CAPA && ABUFP[s->length] == 0;
        case CAT_STATE_READ_LOOP:
                return p_cmd_in_table(c) && c->read != NULL && s->position < H_CAPA && ABUFP[s->position] == 0;
        case CAT_STATE_TEST_LOOP:
                return p_cmd_in_table(c) && c->test != NULL && s->position < H_CAPA && ABUFP[s->position] == 0;
        case CAT_STATE_RUN_LOOP:
                return p_cmd_in_table(c) && c->run != NULL;
        case CAT_STATE_HOLD:
                return 1;
        case CAT_STATE_FLUSH_IO_WRITE_WAIT:
        case CAT_STATE_FLUSH_IO_WRITE:
                if (s->write_state == V_WS_AFTER && s->write_buf == ABUFP && s->write_state_after != CAT_STATE_PRINT_CMD)
                        return 0; /* raw lines only belong to the command list */
                return p_flush_cursor_ok(s->write_buf, s->write_state, s->position, ABUFP, H_CAPA) && p_live_after_flush(s, s->write_state_after);
        case CAT_STATE_AFTER_FLUSH_RESET:
        case CAT_STATE_AFTER_FLUSH_OK:
                return 1;
        case CAT_STATE_AFTER_FLUSH_FORMAT_READ_ARGS:
        case CAT_STATE_AFTER_FLUSH_FORMAT_TEST_ARGS:
        case CAT_STATE_PRINT_CMD:
                return p_live_after_flush(s, ST(s));
        default:
                return 0;
        }
}

#endif
