/* Included by /repo/src/cat.c when built with -DMARCINBOR85_CAT_VERIF.
 * Defines what the CAT_VERIF_LOOP(id) / CAT_VERIF_GHOST(id) markers expand to:
 * CBMC loop contracts (invariant, frame, variant) for the loop that follows the marker, and
 * updates of ghost variables that exist only in the proof build.  No marker expansion writes a
 * variable of the library (checked by the loop 'assigns' clauses and the function frames). */
#ifndef CAT_VERIF_HOOKS_H
#define CAT_VERIF_HOOKS_H

#include "spec.h"

/* V_TWIN (concrete-search twin): same code, same contracts, no loop contracts (loops are unwound instead) */
#define CAT_VERIF_LOOP(id)  CAT_VERIF_LOOP_##id
#define CAT_VERIF_GHOST(id) CAT_VERIF_GHOST_##id

/* abbreviations usable inside cat.c function bodies (self is the parameter name everywhere) */
#define V_BUF        (self->desc->buf)
#define V_POS        (self->position)
#define V_POS0       (__CPROVER_loop_entry(self->position))

/* ---- numeric decoders: saturating Horner ghost over the argument text ---- */
/* the digit is read from the text itself at the position just consumed, not from a local */
#define CAT_VERIF_GHOST_ON_parse_uint_decimal_digit \
        { g_sat = V_SAT(g_sat * 10ULL + (unsigned long long)(V_BUF[V_POS - 1] - '0')); g_ndig++; }
#define CAT_VERIF_GHOST_ON_parse_int_decimal_digit \
        { g_sat = V_SAT(g_sat * 10ULL + (unsigned long long)(V_BUF[V_POS - 1] - '0')); g_ndig++; }
#define CAT_VERIF_GHOST_ON_parse_num_hexadecimal_digit \
        { g_sat = V_SAT(g_sat * 16ULL + (unsigned long long)V_HEXVAL(V_BUF[V_POS - 1])); g_ndig++; }

#define CAT_VERIF_LOOP_ON_parse_uint_decimal \
        __CPROVER_assigns(self->position, ch, val, ok, g_sat, g_ndig) \
        __CPROVER_loop_invariant(V_POS0 <= V_POS && V_POS <= g_len) \
        __CPROVER_loop_invariant(g_ndig == V_POS - V_POS0) \
        __CPROVER_loop_invariant((ok != 0) == (V_POS > V_POS0)) \
        __CPROVER_loop_invariant(g_sat <= 0xFFFFFFFFULL && val == g_sat) \
        __CPROVER_loop_invariant((V_POS0 <= g_k && g_k < V_POS) ==> V_ISDIGIT(V_BUF[g_k])) \
        __CPROVER_decreases(g_len - V_POS)

/* signed decimal: optional sign, digits; val holds the magnitude, sign applied at the end */
#define V_SC0        (V_ISSIGN(V_BUF[V_POS0]) ? 1 : 0)
#define CAT_VERIF_LOOP_ON_parse_int_decimal \
        __CPROVER_assigns(self->position, ch, val, sign, ok, *ret, g_sat, g_ndig) \
        __CPROVER_loop_invariant(V_POS0 <= V_POS && V_POS <= g_len) \
        __CPROVER_loop_invariant((sign == 0) == (V_POS == V_POS0)) \
        __CPROVER_loop_invariant(V_POS > V_POS0 ==> ((sign == 1 || sign == -1) && ((sign == -1) == (V_BUF[V_POS0] == '-')))) \
        __CPROVER_loop_invariant(g_ndig == ((V_POS > V_POS0) ? V_POS - V_POS0 - V_SC0 : 0)) \
        __CPROVER_loop_invariant((ok != 0) == (g_ndig > 0)) \
        __CPROVER_loop_invariant(g_ndig == 0 ==> g_sat == 0) \
        __CPROVER_loop_invariant(g_sat <= 0x80000000ULL && val >= 0 && (unsigned long long)val == g_sat) \
        __CPROVER_loop_invariant((V_POS0 + V_SC0 <= g_k && g_k < V_POS) ==> V_ISDIGIT(V_BUF[g_k])) \
        __CPROVER_decreases(g_len - V_POS)

/* 0x / 0X prefix then hex digits in either case */
#define CAT_VERIF_LOOP_ON_parse_num_hexadecimal \
        __CPROVER_assigns(self->position, ch, val, state, *ret, g_sat, g_ndig) \
        __CPROVER_loop_invariant(V_POS0 <= V_POS && V_POS <= g_len) \
        __CPROVER_loop_invariant(0 <= state && state <= 3) \
        __CPROVER_loop_invariant((state == 0) == (V_POS == V_POS0) && (state == 1) == (V_POS == V_POS0 + 1) && (state == 2) == (V_POS == V_POS0 + 2)) \
        __CPROVER_loop_invariant(V_POS >= V_POS0 + 1 ==> V_BUF[V_POS0] == '0') \
        __CPROVER_loop_invariant(V_POS >= V_POS0 + 2 ==> V_ISX(V_BUF[V_POS0 + 1])) \
        __CPROVER_loop_invariant(g_ndig == ((V_POS >= V_POS0 + 2) ? V_POS - V_POS0 - 2 : 0)) \
        __CPROVER_loop_invariant(g_sat <= 0xFFFFFFFFULL && val == g_sat) \
        __CPROVER_loop_invariant((V_POS0 + 2 <= g_k && g_k < V_POS) ==> V_ISHEX(V_BUF[g_k])) \
        __CPROVER_decreases(g_len - V_POS)

/* byte buffer as pairs of hex digits; V_DATA is the variable's storage */
#define V_DATA       ((uint8_t *)(self->var->data))
#define V_NOTRO      (self->var->access != CAT_VAR_ACCESS_READ_ONLY)
#define CAT_VERIF_LOOP_ON_parse_buffer_hexadecimal \
        __CPROVER_assigns(self->position, ch, byte, state, size, self->write_size, __CPROVER_object_upto(self->var->data, self->var->data_size)) \
        __CPROVER_loop_invariant(V_POS0 <= V_POS && V_POS <= g_len) \
        __CPROVER_loop_invariant((state == 0 || state == 1) && size <= self->var->data_size) \
        __CPROVER_loop_invariant(V_POS - V_POS0 == 2 * size + (size_t)state) \
        __CPROVER_loop_invariant(state == 0 ? byte == 0 : (V_ISHEX(V_BUF[V_POS - 1]) && byte == V_HEXVAL(V_BUF[V_POS - 1]))) \
        __CPROVER_loop_invariant((V_POS0 <= g_k && g_k < V_POS) ==> V_ISHEX(V_BUF[g_k])) \
        __CPROVER_loop_invariant((g_j < size && V_NOTRO) ==> V_DATA[g_j] == V_HEXVAL(V_BUF[V_POS0 + 2 * g_j]) * 16 + V_HEXVAL(V_BUF[V_POS0 + 2 * g_j + 1])) \
        __CPROVER_loop_invariant((g_j < self->var->data_size && (g_j >= size || !V_NOTRO)) ==> V_DATA[g_j] == g_oldbyte) \
        __CPROVER_decreases(g_len - V_POS)

/* quoted string with escapes: automaton state 0 (expect quote) 1 (inside) 2 (after backslash) 3 (after closing quote) */
#define CAT_VERIF_GHOST_ON_parse_buffer_string_store \
        { if (size == g_j) { g_src = V_POS - 1; g_esc = (state == 2); } g_size = size + 1; if (state == 2) g_nesc++; }
#define CAT_VERIF_LOOP_ON_parse_buffer_string \
        __CPROVER_assigns(self->position, ch, state, size, self->write_size, g_size, g_nesc, g_src, g_esc, __CPROVER_object_upto(self->var->data, self->var->data_size)) \
        __CPROVER_loop_invariant(V_POS0 <= V_POS && V_POS <= g_len) \
        __CPROVER_loop_invariant(0 <= state && state <= 3 && (state == 0) == (V_POS == V_POS0)) \
        __CPROVER_loop_invariant(V_POS > V_POS0 ==> V_BUF[V_POS0] == '"') \
        __CPROVER_loop_invariant(size <= self->var->data_size && g_size == size && g_nesc <= V_POS - V_POS0) \
        __CPROVER_loop_invariant(V_POS == V_POS0 ==> (size == 0 && g_nesc == 0)) \
        __CPROVER_loop_invariant(state == 1 ==> V_POS - V_POS0 - 1 == size + g_nesc) \
        __CPROVER_loop_invariant(state == 2 ==> (V_POS - V_POS0 - 2 == size + g_nesc && V_BUF[V_POS - 1] == '\\')) \
        __CPROVER_loop_invariant(state == 3 ==> (V_POS - V_POS0 - 2 == size + g_nesc && V_BUF[V_POS - 1] == '"')) \
        __CPROVER_loop_invariant((V_POS0 <= g_k && g_k < V_POS) ==> V_BUF[g_k] != 0) \
        __CPROVER_loop_invariant(g_j < size ==> (V_POS0 < g_src && g_src < V_POS && g_src + (state >= 2 ? 1 : 0) < V_POS && (g_esc ? (V_ISESC(V_BUF[g_src]) && V_BUF[g_src - 1] == '\\' && g_src >= V_POS0 + 2) : (V_BUF[g_src] != '\\' && V_BUF[g_src] != '"' && V_BUF[g_src] != 0)))) \
        __CPROVER_loop_invariant((g_j < size && V_NOTRO && g_src < V_POS) ==> V_DATA[g_j] == (uint8_t)(g_esc ? V_UNESC(V_BUF[g_src]) : V_BUF[g_src])) \
        __CPROVER_loop_invariant((g_j < self->var->data_size && (g_j >= size || !V_NOTRO)) ==> V_DATA[g_j] == g_oldbyte) \
        __CPROVER_decreases(g_len - V_POS)

/* dfcc makes function-local statics nondeterministic; the newline string is tied to the harness copy by
 * an assumption which the obligation L0.get_new_line_chars (plain CBMC, real static initialiser,
 * built with -DV_NO_CRLF_ASSUME) discharges */
#ifdef V_NO_CRLF_ASSUME
#define CAT_VERIF_GHOST_get_new_line_chars
#else
#define CAT_VERIF_GHOST_get_new_line_chars __CPROVER_assume(crlf == g_crlf);
#endif

/* formatters: F_* abbreviate the cursor / half of the machine the call works for */
#define F_POS        (fsm == CAT_FSM_TYPE_ATCMD ? self->position : self->unsolicited_fsm.position)
#define F_POS0       (fsm == CAT_FSM_TYPE_ATCMD ? __CPROVER_loop_entry(self->position) : __CPROVER_loop_entry(self->unsolicited_fsm.position))
#define F_CAP        (fsm == CAT_FSM_TYPE_ATCMD ? CAP_AT(self) : CAP_UN(self))
#define F_BUF        (fsm == CAT_FSM_TYPE_ATCMD ? ABUF(self) : UBUF(self))
#define F_ASSIGNS    FMT_ASSIGNS
/* before each callee call the callee-level prefix ghosts are refreshed: everything below the cursor, as it is now */
#define CAT_VERIF_GHOST_ON_format_buffer_iter { g_pfx = F_POS; if (g_k < g_pfx && g_pfx <= F_CAP) g_oldtext = F_BUF[g_k]; }
#define F_HEXAT(v, o) (((o) & 1) == 0 ? HEXCH(VBYTE(v, (o) >> 1) >> 4) : HEXCH(VBYTE(v, (o) >> 1) & 15))
#define CAT_VERIF_LOOP_ON_format_buffer_hexadecimal \
        __CPROVER_assigns(i, val, g_pfx, g_oldtext; F_ASSIGNS) \
        __CPROVER_loop_invariant(i <= var->data_size && F_POS == F_POS0 + 2 * i && F_POS <= F_CAP) \
        __CPROVER_loop_invariant(i > 0 ==> (F_POS < F_CAP && F_BUF[F_POS] == 0)) \
        __CPROVER_loop_invariant((F_POS0 <= g_k && g_k < F_POS) ==> F_BUF[g_k] == F_HEXAT(var, g_k - F_POS0)) \
        __CPROVER_loop_invariant(g_pfx1 <= F_POS0 && ((g_k < g_pfx1) ==> F_BUF[g_k] == g_oldtext1)) \
        __CPROVER_loop_invariant(g_pfx <= F_POS && g_pfx1 <= g_pfx && ((g_k < g_pfx) ==> F_BUF[g_k] == g_oldtext)) \
        __CPROVER_decreases(var->data_size - i)
#define CAT_VERIF_LOOP_ON_format_buffer_string \
        __CPROVER_assigns(i, ch, g_pfx, g_oldtext; F_ASSIGNS) \
        __CPROVER_loop_invariant(i <= buf_size && F_POS0 >= 1 && F_POS >= F_POS0 && F_POS < F_CAP && F_BUF[F_POS] == 0) \
        __CPROVER_loop_invariant((g_k == F_POS0 - 1) ==> F_BUF[g_k] == '"') \
        __CPROVER_loop_invariant(g_pfx1 <= g_pfx) \
        __CPROVER_loop_invariant(g_pfx1 + 1 <= F_POS0 && ((g_k < g_pfx1) ==> F_BUF[g_k] == g_oldtext1)) \
        __CPROVER_loop_invariant(g_pfx <= F_POS && ((g_k < g_pfx) ==> F_BUF[g_k] == g_oldtext)) \
        __CPROVER_decreases(buf_size - i)

/* A loop contract (and the ghost updates it talks about) is active only in the proof unit of its own
 * function (-DV_LOOP_<function>): an invariant that names a local which a change has removed then breaks
 * that one unit, not every unit that merely includes cat.c. */
#if defined(V_LOOP_parse_uint_decimal) && !defined(V_TWIN)
#define CAT_VERIF_LOOP_parse_uint_decimal CAT_VERIF_LOOP_ON_parse_uint_decimal
#else
#define CAT_VERIF_LOOP_parse_uint_decimal
#endif
#if defined(V_LOOP_parse_int_decimal) && !defined(V_TWIN)
#define CAT_VERIF_LOOP_parse_int_decimal CAT_VERIF_LOOP_ON_parse_int_decimal
#else
#define CAT_VERIF_LOOP_parse_int_decimal
#endif
#if defined(V_LOOP_parse_num_hexadecimal) && !defined(V_TWIN)
#define CAT_VERIF_LOOP_parse_num_hexadecimal CAT_VERIF_LOOP_ON_parse_num_hexadecimal
#else
#define CAT_VERIF_LOOP_parse_num_hexadecimal
#endif
#if defined(V_LOOP_parse_buffer_hexadecimal) && !defined(V_TWIN)
#define CAT_VERIF_LOOP_parse_buffer_hexadecimal CAT_VERIF_LOOP_ON_parse_buffer_hexadecimal
#else
#define CAT_VERIF_LOOP_parse_buffer_hexadecimal
#endif
#if defined(V_LOOP_parse_buffer_string) && !defined(V_TWIN)
#define CAT_VERIF_LOOP_parse_buffer_string CAT_VERIF_LOOP_ON_parse_buffer_string
#else
#define CAT_VERIF_LOOP_parse_buffer_string
#endif
#if defined(V_LOOP_format_buffer_hexadecimal) && !defined(V_TWIN)
#define CAT_VERIF_LOOP_format_buffer_hexadecimal CAT_VERIF_LOOP_ON_format_buffer_hexadecimal
#else
#define CAT_VERIF_LOOP_format_buffer_hexadecimal
#endif
#if defined(V_LOOP_format_buffer_string) && !defined(V_TWIN)
#define CAT_VERIF_LOOP_format_buffer_string CAT_VERIF_LOOP_ON_format_buffer_string
#else
#define CAT_VERIF_LOOP_format_buffer_string
#endif
#if defined(V_LOOP_parse_uint_decimal)
#define CAT_VERIF_GHOST_parse_uint_decimal_digit CAT_VERIF_GHOST_ON_parse_uint_decimal_digit
#else
#define CAT_VERIF_GHOST_parse_uint_decimal_digit
#endif
#if defined(V_LOOP_parse_int_decimal)
#define CAT_VERIF_GHOST_parse_int_decimal_digit CAT_VERIF_GHOST_ON_parse_int_decimal_digit
#else
#define CAT_VERIF_GHOST_parse_int_decimal_digit
#endif
#if defined(V_LOOP_parse_num_hexadecimal)
#define CAT_VERIF_GHOST_parse_num_hexadecimal_digit CAT_VERIF_GHOST_ON_parse_num_hexadecimal_digit
#else
#define CAT_VERIF_GHOST_parse_num_hexadecimal_digit
#endif
#if defined(V_LOOP_format_buffer_hexadecimal)
#define CAT_VERIF_GHOST_format_buffer_hexadecimal_iter CAT_VERIF_GHOST_ON_format_buffer_iter
#else
#define CAT_VERIF_GHOST_format_buffer_hexadecimal_iter
#endif
#if defined(V_LOOP_format_buffer_string)
#define CAT_VERIF_GHOST_format_buffer_string_iter CAT_VERIF_GHOST_ON_format_buffer_iter
#else
#define CAT_VERIF_GHOST_format_buffer_string_iter
#endif
#if defined(V_LOOP_parse_buffer_string)
#define CAT_VERIF_GHOST_parse_buffer_string_store CAT_VERIF_GHOST_ON_parse_buffer_string_store
#else
#define CAT_VERIF_GHOST_parse_buffer_string_store
#endif

/* placeholders (filled in below as each loop is brought under contract) */
#define CAT_VERIF_LOOP_is_variables_access_possible
#define CAT_VERIF_LOOP_cat_is_unsolicited_event_buffered
#define CAT_VERIF_LOOP_get_command_by_index
#define CAT_VERIF_LOOP_cat_init_groups
#define CAT_VERIF_LOOP_cat_init_cmds
#define CAT_VERIF_LOOP_is_command_disable
#define CAT_VERIF_LOOP_cat_search_command_by_name
#define CAT_VERIF_LOOP_cat_search_command_group_by_name
#define CAT_VERIF_LOOP_cat_search_variable_by_name

#endif
