/* Included by /repo/src/cat.c when built with -DMARCINBOR85_CAT_VERIF.
 * Defines what the CAT_VERIF_LOOP(id) / CAT_VERIF_GHOST(id) markers expand to:
 * CBMC loop contracts (invariant, frame, variant) for the loop that follows the marker, and
 * updates of ghost variables that exist only in the proof build.  No marker expansion writes a
 * variable of the library (checked by the loop 'assigns' clauses and the function frames). */
#ifndef CAT_VERIF_HOOKS_H
#define CAT_VERIF_HOOKS_H

#include "spec.h"

#define CAT_VERIF_LOOP(id)  CAT_VERIF_LOOP_##id
#define CAT_VERIF_GHOST(id) CAT_VERIF_GHOST_##id

/* abbreviations usable inside cat.c function bodies (self is the parameter name everywhere) */
#define V_BUF        (self->desc->buf)
#define V_POS        (self->position)
#define V_POS0       (__CPROVER_loop_entry(self->position))

/* ---- numeric decoders: saturating Horner ghost over the argument text ---- */
/* the digit is read from the text itself at the position just consumed, not from a local */
#define CAT_VERIF_GHOST_parse_uint_decimal_digit \
        { g_sat = V_SAT(g_sat * 10ULL + (unsigned long long)(V_BUF[V_POS - 1] - '0')); g_ndig++; }
#define CAT_VERIF_GHOST_parse_int_decimal_digit \
        { g_sat = V_SAT(g_sat * 10ULL + (unsigned long long)(V_BUF[V_POS - 1] - '0')); g_ndig++; }
#define CAT_VERIF_GHOST_parse_num_hexadecimal_digit \
        { g_sat = V_SAT(g_sat * 16ULL + (unsigned long long)V_HEXVAL(V_BUF[V_POS - 1])); g_ndig++; }

#define CAT_VERIF_LOOP_parse_uint_decimal \
        __CPROVER_assigns(self->position, ch, val, ok, g_sat, g_ndig) \
        __CPROVER_loop_invariant(V_POS0 <= V_POS && V_POS <= g_len) \
        __CPROVER_loop_invariant(g_ndig == V_POS - V_POS0) \
        __CPROVER_loop_invariant((ok != 0) == (V_POS > V_POS0)) \
        __CPROVER_loop_invariant(g_sat <= 0xFFFFFFFFULL && val == g_sat) \
        __CPROVER_loop_invariant((V_POS0 <= g_k && g_k < V_POS) ==> V_ISDIGIT(V_BUF[g_k])) \
        __CPROVER_decreases(g_len - V_POS)

/* placeholders (filled in below as each loop is brought under contract) */
#define CAT_VERIF_LOOP_is_variables_access_possible
#define CAT_VERIF_LOOP_cat_is_unsolicited_event_buffered
#define CAT_VERIF_LOOP_get_command_by_index
#define CAT_VERIF_LOOP_cat_init_groups
#define CAT_VERIF_LOOP_cat_init_cmds
#define CAT_VERIF_LOOP_is_command_disable
#define CAT_VERIF_LOOP_parse_int_decimal
#define CAT_VERIF_LOOP_parse_num_hexadecimal
#define CAT_VERIF_LOOP_parse_buffer_hexadecimal
#define CAT_VERIF_LOOP_parse_buffer_string
#define CAT_VERIF_LOOP_format_buffer_hexadecimal
#define CAT_VERIF_LOOP_format_buffer_string
#define CAT_VERIF_LOOP_cat_search_command_by_name
#define CAT_VERIF_LOOP_cat_search_command_group_by_name
#define CAT_VERIF_LOOP_cat_search_variable_by_name
#define CAT_VERIF_GHOST_parse_buffer_string_store

#endif
