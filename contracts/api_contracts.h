/* Contracts of the public API functions other than cat_service/cat_init, over an arbitrary object
 * satisfying Inv.  CS is the object as seen at the start of the critical section (equal to the entry
 * state unless the harness is built with H_LOCKRULE, where a successful lock() lets "another thread"
 * rewrite the lock-protected fields under their invariant: then the contracts must hold for the values
 * seen inside the critical section, which only code that reads them after lock() can satisfy). */
#ifndef CAT_VERIF_API_CONTRACTS_H
#define CAT_VERIF_API_CONTRACTS_H

#define HAS_MUTEX   (g_old.mutex != NULL)
#define CS          (HAS_MUTEX && EL.lock_ret == 0 ? &EL.in_cs : &g_old)
/* [C16] clauses shared by every locking function (written out per function so that each is a named obligation) */
#define LOCK_BALANCED   (HAS_MUTEX ? (EL.lock_calls == 1 && EL.unlock_calls == (EL.lock_ret == 0 ? 1 : 0) && !EL.lock_err && !EL.held) : (EL.lock_calls == 0 && EL.unlock_calls == 0))
#define LOCK_FAILED     (HAS_MUTEX && EL.lock_ret != 0)
#define UNLOCK_FAILED   (HAS_MUTEX && EL.lock_ret == 0 && EL.unlock_ret != 0)
#define LOCKS_FINE      (!LOCK_FAILED && !UNLOCK_FAILED)
/* nothing read or written outside the critical section: the object at the first lock() is the entry
 * object, and the returned object is the object as it was at unlock() */
#define NOTHING_OUTSIDE (!(HAS_MUTEX && EL.lock_ret == 0) || (p_at_same(&g_old, &EL.at_lock, 0) && p_un_same(&g_old, &EL.at_lock) && p_at_same(&EL.at_unlock, self, 0) && p_un_same(&EL.at_unlock, self)))
#define API_POST    (HAS_MUTEX && EL.lock_ret == 0 ? &EL.at_unlock : self)
#ifdef H_LOCKRULE
#undef NOTHING_OUTSIDE
#define NOTHING_OUTSIDE (!(HAS_MUTEX && EL.lock_ret == 0) || (p_at_same(&g_old, &EL.at_lock, 0) && p_un_same(&g_old, &EL.at_lock)))
#define API_LOCKRULE_ASSIGNS , self->unsolicited_fsm.unsolicited_cmd_buffer, self->unsolicited_fsm.unsolicited_cmd_buffer_tail, self->unsolicited_fsm.unsolicited_cmd_buffer_head, self->unsolicited_fsm.unsolicited_cmd_buffer_items_count, self->hold_exit_status
#else
#define API_LOCKRULE_ASSIGNS
#endif
#define OBJ_UNCHANGED_SINCE(o) (p_at_same((o), self, 0) && p_un_same((o), self))
#define API_INV(s) ((s) == &h_obj && inv_wf(s) && inv_ring(s) && inv_ev(s) && inv_excl(s) && inv_hold(s) && inv_live(s))

cat_status cat_is_busy(struct cat_object *self)
__CPROVER_requires(API_INV(self))
__CPROVER_assigns(EL API_LOCKRULE_ASSIGNS)
/* [C16,C17:busy-lock-balance]  */ __CPROVER_ensures(LOCK_BALANCED)
/* [C16:busy-lock-fail]     */ __CPROVER_ensures(LOCK_FAILED ==> (RET == CAT_STATUS_ERROR_MUTEX_LOCK && OBJ_UNCHANGED_SINCE(&g_old)))
/* [C16:busy-unlock-fail]   */ __CPROVER_ensures(UNLOCK_FAILED ==> RET == CAT_STATUS_ERROR_MUTEX_UNLOCK)
/* [C16,C17:busy-nothing-outside] */ __CPROVER_ensures(NOTHING_OUTSIDE)
/* [C18:busy-ok-means-idle] */ __CPROVER_ensures(RET == CAT_STATUS_OK ==> (ST(CS) == CAT_STATE_IDLE && UST(CS) == CAT_UNSOLICITED_STATE_IDLE))
/* [C18:busy-quiescent-ok]  */ __CPROVER_ensures((LOCKS_FINE && ST(CS) == CAT_STATE_IDLE && UST(CS) == CAT_UNSOLICITED_STATE_IDLE) ==> RET == CAT_STATUS_OK)
/* [C18:busy-ret]           */ __CPROVER_ensures(LOCKS_FINE ==> (RET == CAT_STATUS_OK || RET == CAT_STATUS_BUSY))
;

cat_status cat_is_hold(struct cat_object *self)
__CPROVER_requires(API_INV(self))
__CPROVER_assigns(EL API_LOCKRULE_ASSIGNS)
/* [C16,C17:hold-lock-balance]  */ __CPROVER_ensures(LOCK_BALANCED)
/* [C16:hold-lock-fail]     */ __CPROVER_ensures(LOCK_FAILED ==> (RET == CAT_STATUS_ERROR_MUTEX_LOCK && OBJ_UNCHANGED_SINCE(&g_old)))
/* [C16:hold-unlock-fail]   */ __CPROVER_ensures(UNLOCK_FAILED ==> RET == CAT_STATUS_ERROR_MUTEX_UNLOCK)
/* [C16,C17:hold-nothing-outside] */ __CPROVER_ensures(NOTHING_OUTSIDE)
/* [C14,C18:is-hold-exact]  */ __CPROVER_ensures(LOCKS_FINE ==> ((RET == CAT_STATUS_HOLD) == (ST(CS) == CAT_STATE_HOLD) && (RET == CAT_STATUS_HOLD || RET == CAT_STATUS_OK)))
;

cat_status cat_hold_exit(struct cat_object *self, cat_status status)
__CPROVER_requires(API_INV(self))
__CPROVER_assigns(EL, self->hold_exit_status API_LOCKRULE_ASSIGNS)
/* [C16,C17:hexit-lock-balance] */ __CPROVER_ensures(LOCK_BALANCED)
/* [C16:hexit-lock-fail]    */ __CPROVER_ensures(LOCK_FAILED ==> (RET == CAT_STATUS_ERROR_MUTEX_LOCK && OBJ_UNCHANGED_SINCE(&g_old)))
/* [C16:hexit-unlock-fail]  */ __CPROVER_ensures(UNLOCK_FAILED ==> RET == CAT_STATUS_ERROR_MUTEX_UNLOCK)
/* [C16,C17:hexit-nothing-outside] */ __CPROVER_ensures(NOTHING_OUTSIDE)
/* [C14:hexit-not-hold]     */ __CPROVER_ensures((!LOCK_FAILED && ST(CS) != CAT_STATE_HOLD) ==> ((UNLOCK_FAILED || RET == CAT_STATUS_ERROR_NOT_HOLD) && API_POST->hold_exit_status == CS->hold_exit_status))
/* [C14:hexit-in-hold]      */ __CPROVER_ensures((!LOCK_FAILED && ST(CS) == CAT_STATE_HOLD) ==> ((UNLOCK_FAILED || RET == CAT_STATUS_OK) && API_POST->hold_exit_status == ((status == CAT_STATUS_OK) ? 1 : -1)))
/* [INV:hexit-inv]          */ __CPROVER_ensures(inv_hold(self) && inv_live(self))
;

cat_status cat_is_unsolicited_buffer_full(struct cat_object *self)
__CPROVER_requires(API_INV(self))
__CPROVER_assigns(EL API_LOCKRULE_ASSIGNS)
/* [C16,C17:full-lock-balance]  */ __CPROVER_ensures(LOCK_BALANCED)
/* [C16:full-lock-fail]     */ __CPROVER_ensures(LOCK_FAILED ==> (RET == CAT_STATUS_ERROR_MUTEX_LOCK && OBJ_UNCHANGED_SINCE(&g_old)))
/* [C16:full-unlock-fail]   */ __CPROVER_ensures(UNLOCK_FAILED ==> RET == CAT_STATUS_ERROR_MUTEX_UNLOCK)
/* [C16,C17:full-nothing-outside] */ __CPROVER_ensures(NOTHING_OUTSIDE)
/* [C13,C17:full-exact]     */ __CPROVER_ensures(LOCKS_FINE ==> (RET == ((RING_CNT(CS) == H_RING) ? CAT_STATUS_ERROR_BUFFER_FULL : CAT_STATUS_OK)))
;

/* the queue after accepting (cmd, type) on top of the queue o */
static _Bool p_ring_pushed(const struct cat_object *o, const struct cat_object *n, const struct cat_command *cmd, cat_cmd_type type)
{
        size_t j;
        if (!(RING_CNT(n) == RING_CNT(o) + 1 && RING_HEAD(n) == RING_HEAD(o) && UF(n).unsolicited_cmd_buffer_tail == (UF(o).unsolicited_cmd_buffer_tail + 1) % H_RING))
                return 0;
        for (j = 0; j < H_RING; j++) {
                const struct cat_unsolicited_cmd *a = &UF(o).unsolicited_cmd_buffer[j], *b = &UF(n).unsolicited_cmd_buffer[j];
                if (j == UF(o).unsolicited_cmd_buffer_tail) {
                        if (b->cmd != cmd || b->type != type)
                                return 0;
                } else if (a->cmd != b->cmd || a->type != b->type)
                        return 0;
        }
        return 1;
}

#define TRIGGER_CONTRACT(tag, TYPE) \
__CPROVER_requires(API_INV(self) && p_cmd_in_pool(cmd) && ((TYPE) == CAT_CMD_TYPE_READ || (TYPE) == CAT_CMD_TYPE_TEST)) \
__CPROVER_assigns(EL, self->unsolicited_fsm.unsolicited_cmd_buffer, self->unsolicited_fsm.unsolicited_cmd_buffer_tail, self->unsolicited_fsm.unsolicited_cmd_buffer_items_count API_LOCKRULE_ASSIGNS)

cat_status cat_trigger_unsolicited_event(struct cat_object *self, struct cat_command const *cmd, cat_cmd_type type)
TRIGGER_CONTRACT(trig, type)
/* [C16,C17:trig-lock-balance]  */ __CPROVER_ensures(LOCK_BALANCED)
/* [C16:trig-lock-fail]     */ __CPROVER_ensures(LOCK_FAILED ==> (RET == CAT_STATUS_ERROR_MUTEX_LOCK && OBJ_UNCHANGED_SINCE(&g_old)))
/* [C16:trig-unlock-fail]   */ __CPROVER_ensures(UNLOCK_FAILED ==> RET == CAT_STATUS_ERROR_MUTEX_UNLOCK)
/* [C16,C17:trig-nothing-outside] */ __CPROVER_ensures(NOTHING_OUTSIDE)
/* [C13,C17:trig-full]      */ __CPROVER_ensures((!LOCK_FAILED && RING_CNT(CS) == H_RING) ==> ((UNLOCK_FAILED || RET == CAT_STATUS_ERROR_BUFFER_FULL) && p_un_same(CS, API_POST)))
/* [C13,C17:trig-accept]    */ __CPROVER_ensures((!LOCK_FAILED && RING_CNT(CS) < H_RING) ==> ((UNLOCK_FAILED || RET == CAT_STATUS_OK) && p_ring_pushed(CS, API_POST, cmd, type)))
/* [INV:trig-ring]          */ __CPROVER_ensures(inv_ring(self))
;

cat_status cat_trigger_unsolicited_read(struct cat_object *self, struct cat_command const *cmd)
TRIGGER_CONTRACT(trigr, CAT_CMD_TYPE_READ)
/* [C16,C17:trigr-lock-balance] */ __CPROVER_ensures(LOCK_BALANCED)
/* [C16:trigr-lock-fail]    */ __CPROVER_ensures(LOCK_FAILED ==> (RET == CAT_STATUS_ERROR_MUTEX_LOCK && OBJ_UNCHANGED_SINCE(&g_old)))
/* [C13,C17:trigr-full]     */ __CPROVER_ensures((!LOCK_FAILED && RING_CNT(CS) == H_RING) ==> ((UNLOCK_FAILED || RET == CAT_STATUS_ERROR_BUFFER_FULL) && p_un_same(CS, API_POST)))
/* [C13,C17:trigr-accept]   */ __CPROVER_ensures((!LOCK_FAILED && RING_CNT(CS) < H_RING) ==> ((UNLOCK_FAILED || RET == CAT_STATUS_OK) && p_ring_pushed(CS, API_POST, cmd, CAT_CMD_TYPE_READ)))
;

cat_status cat_trigger_unsolicited_test(struct cat_object *self, struct cat_command const *cmd)
TRIGGER_CONTRACT(trigt, CAT_CMD_TYPE_TEST)
/* [C16,C17:trigt-lock-balance] */ __CPROVER_ensures(LOCK_BALANCED)
/* [C16:trigt-lock-fail]    */ __CPROVER_ensures(LOCK_FAILED ==> (RET == CAT_STATUS_ERROR_MUTEX_LOCK && OBJ_UNCHANGED_SINCE(&g_old)))
/* [C13,C17:trigt-full]     */ __CPROVER_ensures((!LOCK_FAILED && RING_CNT(CS) == H_RING) ==> ((UNLOCK_FAILED || RET == CAT_STATUS_ERROR_BUFFER_FULL) && p_un_same(CS, API_POST)))
/* [C13,C17:trigt-accept]   */ __CPROVER_ensures((!LOCK_FAILED && RING_CNT(CS) < H_RING) ==> ((UNLOCK_FAILED || RET == CAT_STATUS_OK) && p_ring_pushed(CS, API_POST, cmd, CAT_CMD_TYPE_TEST)))
;

/* an event (cmd, type) is pending in the queue of s or in progress; type NONE matches both kinds */
static _Bool p_event_pending(const struct cat_object *s, const struct cat_command *cmd, cat_cmd_type type)
{
        size_t j;
        if (UF(s).cmd == cmd && (type == CAT_CMD_TYPE_NONE || UF(s).cmd_type == type))
                return 1;
        for (j = 0; j < H_RING; j++) {
                const struct cat_unsolicited_cmd *it = &UF(s).unsolicited_cmd_buffer[(RING_HEAD(s) + j) % H_RING];
                if (j < RING_CNT(s) && it->cmd == cmd && (type == CAT_CMD_TYPE_NONE || it->type == type))
                        return 1;
        }
        return 0;
}

cat_status cat_is_unsolicited_event_buffered(struct cat_object *self, struct cat_command const *cmd, cat_cmd_type type)
__CPROVER_requires(API_INV(self) && p_cmd_in_pool(cmd) && (type == CAT_CMD_TYPE_NONE || type == CAT_CMD_TYPE_READ || type == CAT_CMD_TYPE_TEST))
__CPROVER_assigns()
/* [C13:buffered-exact]     */ __CPROVER_ensures(RET == (p_event_pending(&g_old, cmd, type) ? CAT_STATUS_BUSY : CAT_STATUS_OK))
;

struct cat_command const *cat_get_processed_command(struct cat_object *self, cat_fsm_type fsm)
__CPROVER_requires(API_INV(self) && (fsm == CAT_FSM_TYPE_ATCMD || fsm == CAT_FSM_TYPE_UNSOLICITED))
__CPROVER_assigns()
/* [C13:processed-exact]    */ __CPROVER_ensures(RET == (fsm == CAT_FSM_TYPE_ATCMD ? g_old.cmd : g_old.unsolicited_fsm.cmd))
/* [C13:processed-idle]     */ __CPROVER_ensures((fsm == CAT_FSM_TYPE_UNSOLICITED && RET == NULL) == (fsm == CAT_FSM_TYPE_UNSOLICITED && UST(&g_old) == CAT_UNSOLICITED_STATE_IDLE))
;

/* base case of the induction: cat_init establishes Inv on any descriptor of the domain, whatever the object held before */
void cat_init(struct cat_object *self, const struct cat_descriptor *desc, const struct cat_io_interface *io, const struct cat_mutex_interface *mutex)
__CPROVER_requires(self == &h_obj && desc == &h_desc && io == &h_io && (mutex == NULL || mutex == &h_mutex))
__CPROVER_assigns(*self)
/* [INV:init-wf]            */ __CPROVER_ensures(inv_wf(self) && self->mutex == mutex)
/* [INV,C13:init-ring]      */ __CPROVER_ensures(inv_ring(self) && RING_CNT(self) == 0)
/* [INV:init-ev]            */ __CPROVER_ensures(inv_ev(self) && UST(self) == CAT_UNSOLICITED_STATE_IDLE)
/* [INV,C11:init-excl]      */ __CPROVER_ensures(inv_excl(self))
/* [INV,C14:init-hold]      */ __CPROVER_ensures(inv_hold(self) && self->hold_state_flag == 0)
/* [INV,C20:init-live]      */ __CPROVER_ensures(inv_live(self) && ST(self) == CAT_STATE_IDLE)
;

/* lookup helpers of the public API: memory safety for every descriptor of the shape, result inside the table */
struct cat_command const* cat_search_command_by_name(struct cat_object *self, const char *name)
__CPROVER_requires(API_INV(self))
__CPROVER_assigns()
/* [C03:search-cmd-result]  */ __CPROVER_ensures(RET == NULL || p_cmd_in_table(RET))
;
struct cat_command_group const* cat_search_command_group_by_name(struct cat_object *self, const char *name)
__CPROVER_requires(API_INV(self))
__CPROVER_assigns()
/* [C03:search-grp-result]  */ __CPROVER_ensures(RET == NULL || RET == &h_grp[0] || RET == &h_grp[1])
;
struct cat_variable const* cat_search_variable_by_name(struct cat_object *self, struct cat_command const *cmd, const char *name)
__CPROVER_requires(API_INV(self) && p_cmd_in_pool(cmd) && (cmd->var != NULL || cmd->var_num == 0))
__CPROVER_assigns()
/* [C03:search-var-result]  */ __CPROVER_ensures(RET == NULL || (RET >= &cmd->var[0] && RET < &cmd->var[cmd->var_num]))
;

#endif
