/* Ghost state and specification vocabulary shared by contracts, loop contracts and harnesses.
 * Everything here is written from the property statements, not from the code. */
#ifndef CAT_VERIF_SPEC_H
#define CAT_VERIF_SPEC_H
#include <stdint.h>
#include <stddef.h>

/* --- ghost variables (exist only in proof builds) --- */
unsigned long long g_sat;   /* saturating Horner value of the digits consumed so far            */
size_t g_ndig;              /* number of digits folded into g_sat                                */
size_t g_len;               /* length of the collected argument text (index of its NUL)         */
size_t g_k;                 /* witness index: arbitrary but fixed, stands for "every k"         */

#define V_SAT_CAP      (1ULL << 40)
#define V_SAT(x)       (((x) > V_SAT_CAP) ? V_SAT_CAP : (x))
#define V_ISDIGIT(c)   ((c) >= '0' && (c) <= '9')
#define V_ISHEX(c)     (V_ISDIGIT(c) || ((c) >= 'A' && (c) <= 'F') || ((c) >= 'a' && (c) <= 'f'))
#define V_HEXVAL(c)    (V_ISDIGIT(c) ? ((c) - '0') : (((c) >= 'a') ? ((c) - 'a' + 10) : ((c) - 'A' + 10)))
#define V_ISTERM(c)    ((c) == 0 || (c) == ',')

#endif
