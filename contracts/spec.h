/* Ghost state and specification vocabulary shared by contracts, loop contracts and harnesses.
 * Everything here is written from the property statements, not from the code. */
#ifndef CAT_VERIF_SPEC_H
#define CAT_VERIF_SPEC_H
#include <stdint.h>
#include <stddef.h>

/* --- ghost variables (exist only in proof builds) --- */
const char *g_crlf;         /* the harness copy of the newline string "\\r\\n" (see CAT_VERIF_GHOST_get_new_line_chars) */
unsigned long long g_sat;   /* saturating Horner value of the digits consumed so far            */
size_t g_ndig;              /* number of digits folded into g_sat                                */
size_t g_len;               /* length of the collected argument text (index of its NUL)         */
size_t g_k;                 /* witness index into the argument text: arbitrary but fixed, stands for "every k" */
size_t g_j;                 /* witness index into a variable's data bytes                        */
size_t g_size;              /* string decoder: number of decoded bytes so far                    */
size_t g_nesc;              /* string decoder: number of escape sequences decoded so far         */
size_t g_src;               /* string decoder: text position the witness byte g_j was decoded from */
size_t g_pfx1; uint8_t g_oldtext1; /* the same pair one call level up (format_* functions, which call the print helpers) */
size_t g_pfx;                /* formatters: bound below which the existing text must be preserved  */
uint8_t g_oldtext;          /* value of the witness text byte g_k before the call                */
uint8_t g_oldbyte;          /* value of the witness data byte g_j before the call                */
_Bool  g_esc;               /* string decoder: witness byte came from an escape sequence         */

/* three phases of emitting one output unit (newline, payload, newline) */
#define V_WS_BEFORE 0
#define V_WS_MAIN   1
#define V_WS_AFTER  2

#define V_SAT_CAP      (1ULL << 40)
#define V_SAT(x)       (((x) > V_SAT_CAP) ? V_SAT_CAP : (x))
#define V_ISDIGIT(c)   ((c) >= '0' && (c) <= '9')
#define V_ISHEX(c)     (V_ISDIGIT(c) || ((c) >= 'A' && (c) <= 'F') || ((c) >= 'a' && (c) <= 'f'))
#define V_HEXVAL(c)    (V_ISDIGIT(c) ? ((c) - '0') : (((c) >= 'a') ? ((c) - 'a' + 10) : ((c) - 'A' + 10)))
#define V_ISTERM(c)    ((c) == 0 || (c) == ',')
#define V_ISSIGN(c)    ((c) == '+' || (c) == '-')
#define V_ISX(c)       ((c) == 'x' || (c) == 'X')
#define V_ISESC(c)     ((c) == '\\' || (c) == '"' || (c) == 'n')
#define V_UNESC(c)     (((c) == 'n') ? '\n' : (c))

#endif
