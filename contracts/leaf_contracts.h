/* Function contracts of the leaf functions of /repo/src/cat.c, written on forward declarations
 * (CBMC attaches them to the definitions that follow when cat.c is included).
 * Tag convention: the comment that opens an ensures line, e.g. [C04:accept-exact], names the
 * properties the clause belongs to and a clause id; the driver maps a failed CBMC obligation
 * back to it through the source line. */
#ifndef CAT_VERIF_LEAF_CONTRACTS_H
#define CAT_VERIF_LEAF_CONTRACTS_H
#include "spec.h"
#include "cat.h"

#define OLD(x) __CPROVER_old(x)
#define RET    __CPROVER_return_value

/* capacity of the command half / event half, as the property text defines them */
#define CAP_AT(s) (((s)->desc->unsolicited_buf != NULL) ? (s)->desc->buf_size : ((s)->desc->buf_size >> 1))
#define CAP_UN(s) (((s)->desc->unsolicited_buf != NULL) ? (s)->desc->unsolicited_buf_size : ((s)->desc->buf_size >> 1))
#define ABUF(s)   ((s)->desc->buf)

/* precondition shared by the argument decoders: a NUL-terminated argument text of length g_len in
 * the command half, cursor inside it; ghosts cleared */
#define DECODER_PRE(s) ( g_len < CAP_AT(s) && ABUF(s)[g_len] == 0 && (s)->position <= g_len && g_sat == 0 && g_ndig == 0 )

static int parse_uint_decimal(struct cat_object *self, uint64_t *ret)
__CPROVER_requires(DECODER_PRE(self))
__CPROVER_assigns(self->position, *ret, g_sat, g_ndig)
/* [C03,C04:uint-cursor] */ __CPROVER_ensures(OLD(self->position) < self->position && self->position <= g_len + 1)
/* [C04:uint-retcode]    */ __CPROVER_ensures(RET == -1 || RET == 0 || RET == 1)
/* [C04:uint-digits]     */ __CPROVER_ensures((OLD(self->position) <= g_k && g_k < g_len && g_k + 1 < self->position) ==> V_ISDIGIT(ABUF(self)[g_k]))
/* [C04:uint-ghost]      */ __CPROVER_ensures(g_ndig + 1 == self->position - OLD(self->position) || (RET < 0 && g_ndig == self->position - OLD(self->position)))
/* [C04:uint-accept]     */ __CPROVER_ensures(RET >= 0 ==> (self->position >= OLD(self->position) + 2 && V_ISTERM(ABUF(self)[self->position - 1]) && ((RET == 1) == (ABUF(self)[self->position - 1] == ','))))
/* [C04:uint-exact]      */ __CPROVER_ensures(RET >= 0 ==> (g_sat <= 0xFFFFFFFFULL && *ret == g_sat))
/* [C04:uint-reject]     */ __CPROVER_ensures(RET < 0 ==> (g_sat > 0xFFFFFFFFULL || (!V_ISDIGIT(ABUF(self)[self->position - 1]) && (self->position - 1 == OLD(self->position) || !V_ISTERM(ABUF(self)[self->position - 1])))))
;

#endif
