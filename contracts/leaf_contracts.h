/* Function contracts of the leaf functions of /repo/src/cat.c, written on forward declarations
 * (CBMC attaches them to the definitions that follow when cat.c is included).
 * Tag convention: the comment that opens an ensures line, e.g. [C04:accept-exact], names the
 * properties the clause belongs to and a clause id; the driver maps a failed CBMC obligation
 * back to it through the source line. */
#ifndef CAT_VERIF_LEAF_CONTRACTS_H
#define CAT_VERIF_LEAF_CONTRACTS_H
#include "spec.h"
#include "cat.h"
#ifndef X_TOKMAX
#define X_TOKMAX 32
#endif

#define OLD(x) __CPROVER_old(x)
#define RET    __CPROVER_return_value

/* capacity of the command half / event half, as the property text defines them */
#define CAP_AT(s) (((s)->desc->unsolicited_buf != NULL) ? (s)->desc->buf_size : ((s)->desc->buf_size >> 1))
#define CAP_UN(s) (((s)->desc->unsolicited_buf != NULL) ? (s)->desc->unsolicited_buf_size : ((s)->desc->buf_size >> 1))
#define ABUF(s)   ((s)->desc->buf)

/* precondition shared by the argument decoders: a NUL-terminated argument text of length g_len in
 * the command half, cursor inside it; ghosts cleared */
#define DECODER_PRE(s) ( g_len < CAP_AT(s) && ABUF(s)[g_len] == 0 && (s)->position <= g_len && g_sat == 0 && g_ndig == 0 && g_size == 0 && g_nesc == 0 )
/* the current variable: storage of exactly data_size bytes (1..64), access mode one of the three */
#define VAR_PRE(s)     ( (s)->var->data_size >= 1 && (s)->var->data_size <= 64 && (s)->var->access >= CAT_VAR_ACCESS_READ_WRITE && (s)->var->access <= CAT_VAR_ACCESS_WRITE_ONLY )
#define VDATA(s)       ((uint8_t *)((s)->var->data))
#define NOTRO(s)       ((s)->var->access != CAT_VAR_ACCESS_READ_ONLY)
#define POS0           OLD(self->position)
#define LASTC          (ABUF(self)[self->position - 1])

static int parse_uint_decimal(struct cat_object *self, uint64_t *ret)
__CPROVER_requires(DECODER_PRE(self))
__CPROVER_assigns(self->position, *ret, g_sat, g_ndig)
/* [C03,C04:uint-cursor] */ __CPROVER_ensures(OLD(self->position) < self->position && self->position <= g_len + 1)
/* [C04:uint-retcode]    */ __CPROVER_ensures(RET == -1 || RET == 0 || RET == 1)
/* [C04:uint-digits]     */ __CPROVER_ensures((OLD(self->position) <= g_k && g_k < g_len && g_k + 1 < self->position) ==> V_ISDIGIT(ABUF(self)[g_k]))
/* [C04:uint-ghost]      */ __CPROVER_ensures(g_ndig + 1 == self->position - OLD(self->position) || (RET < 0 && g_ndig == self->position - OLD(self->position)))
/* [C04:uint-accept]     */ __CPROVER_ensures(RET >= 0 ==> (self->position >= OLD(self->position) + 2 && V_ISTERM(ABUF(self)[self->position - 1]) && ((RET == 1) == (ABUF(self)[self->position - 1] == ','))))
/* [C04:uint-exact]      */ __CPROVER_ensures(RET >= 0 ==> (g_sat <= 0xFFFFFFFFULL && *ret == g_sat))
/* [C04:uint-reject]     */ __CPROVER_ensures(RET < 0 ==> (g_sat > 0xFFFFFFFFULL || (!V_ISDIGIT(ABUF(self)[self->position - 1]) && (self->position - 1 == OLD(self->position) || !V_ISTERM(ABUF(self)[self->position - 1])))))
;


#define SC0 (V_ISSIGN(ABUF(self)[POS0]) ? 1 : 0)
static int parse_int_decimal(struct cat_object *self, int64_t *ret)
__CPROVER_requires(DECODER_PRE(self))
__CPROVER_assigns(self->position, *ret, g_sat, g_ndig)
/* [C03,C04:int-cursor]  */ __CPROVER_ensures(POS0 < self->position && self->position <= g_len + 1)
/* [C04:int-retcode]     */ __CPROVER_ensures(RET == -1 || RET == 0 || RET == 1)
/* [C04:int-digits]      */ __CPROVER_ensures((POS0 + SC0 <= g_k && g_k < g_len && g_k + 1 < self->position) ==> V_ISDIGIT(ABUF(self)[g_k]))
/* [C04:int-accept]      */ __CPROVER_ensures(RET >= 0 ==> (self->position >= POS0 + SC0 + 2 && g_ndig + SC0 + 1 == self->position - POS0 && V_ISTERM(LASTC) && ((RET == 1) == (LASTC == ','))))
/* [C04:int-exact]       */ __CPROVER_ensures(RET >= 0 ==> (g_sat <= 0x80000000ULL && *ret == ((ABUF(self)[POS0] == '-') ? -(int64_t)g_sat : (int64_t)g_sat)))
/* [C04:int-reject]      */ __CPROVER_ensures(RET < 0 ==> (g_sat > 0x80000000ULL || (!V_ISDIGIT(LASTC) && (g_ndig == 0 ? (self->position - 1 == POS0 ==> !V_ISSIGN(LASTC)) : !V_ISTERM(LASTC)))))
/* [C04:int-ghost]       */ __CPROVER_ensures(RET < 0 ==> (g_sat > 0x80000000ULL ? g_ndig + SC0 == self->position - POS0 : (self->position - 1 == POS0 || g_ndig + SC0 + 1 == self->position - POS0)))
;

static int parse_num_hexadecimal(struct cat_object *self, uint64_t *ret)
__CPROVER_requires(DECODER_PRE(self))
__CPROVER_assigns(self->position, *ret, g_sat, g_ndig)
/* [C03,C04:hex-cursor]  */ __CPROVER_ensures(POS0 < self->position && self->position <= g_len + 1)
/* [C04:hex-retcode]     */ __CPROVER_ensures(RET == -1 || RET == 0 || RET == 1)
/* [C04:hex-digits]      */ __CPROVER_ensures((POS0 + 2 <= g_k && g_k < g_len && g_k + 1 < self->position) ==> V_ISHEX(ABUF(self)[g_k]))
/* [C04:hex-accept]      */ __CPROVER_ensures(RET >= 0 ==> (self->position >= POS0 + 4 && ABUF(self)[POS0] == '0' && V_ISX(ABUF(self)[POS0 + 1]) && g_ndig + 3 == self->position - POS0 && V_ISTERM(LASTC) && ((RET == 1) == (LASTC == ','))))
/* [C04:hex-exact]       */ __CPROVER_ensures(RET >= 0 ==> (g_sat <= 0xFFFFFFFFULL && *ret == g_sat))
/* [C04:hex-reject]      */ __CPROVER_ensures(RET < 0 ==> (g_sat > 0xFFFFFFFFULL || (self->position - 1 == POS0 && LASTC != '0') || (self->position - 1 == POS0 + 1 && !V_ISX(LASTC)) || (self->position - 1 >= POS0 + 2 && !V_ISHEX(LASTC) && (self->position - 1 == POS0 + 2 || !V_ISTERM(LASTC)))))
/* [C04:hex-ghost]       */ __CPROVER_ensures((RET < 0 && self->position >= POS0 + 3) ==> (g_sat > 0xFFFFFFFFULL ? g_ndig + 2 == self->position - POS0 : g_ndig + 3 == self->position - POS0))
;

/* range validators: store iff the value fits the variable's width; read-only is never touched */
#define UMAX_OF(ds) ((ds) == 1 ? 0xFFULL : (ds) == 2 ? 0xFFFFULL : 0xFFFFFFFFULL)
#define UFITS(s, v) (((s)->var->data_size == 1 || (s)->var->data_size == 2 || (s)->var->data_size == 4) && (v) <= UMAX_OF((s)->var->data_size))
#define ULOAD(s)    ((s)->var->data_size == 1 ? (uint64_t)*(uint8_t *)(s)->var->data : (s)->var->data_size == 2 ? (uint64_t)*(uint16_t *)(s)->var->data : (uint64_t)*(uint32_t *)(s)->var->data)
static int validate_uint_range(struct cat_object *self, uint64_t val)
__CPROVER_requires(VAR_PRE(self))
__CPROVER_assigns(self->write_size; NOTRO(self) : __CPROVER_object_upto(self->var->data, self->var->data_size))
/* [C08:uval-readonly]   */ __CPROVER_ensures(!NOTRO(self) ==> (RET == 0 && self->write_size == 0))
/* [C04:uval-store]      */ __CPROVER_ensures((NOTRO(self) && UFITS(self, val)) ==> (RET == 0 && self->write_size == self->var->data_size && ULOAD(self) == val))
/* [C04:uval-reject]     */ __CPROVER_ensures((NOTRO(self) && !UFITS(self, val)) ==> (RET == -1 && (g_j < self->var->data_size ==> VDATA(self)[g_j] == g_oldbyte)))
;

#define SMIN_OF(ds) ((ds) == 1 ? -128LL : (ds) == 2 ? -32768LL : -2147483648LL)
#define SMAX_OF(ds) ((ds) == 1 ? 127LL : (ds) == 2 ? 32767LL : 2147483647LL)
#define SFITS(s, v) (((s)->var->data_size == 1 || (s)->var->data_size == 2 || (s)->var->data_size == 4) && (v) >= SMIN_OF((s)->var->data_size) && (v) <= SMAX_OF((s)->var->data_size))
#define SLOAD(s)    ((s)->var->data_size == 1 ? (int64_t)*(int8_t *)(s)->var->data : (s)->var->data_size == 2 ? (int64_t)*(int16_t *)(s)->var->data : (int64_t)*(int32_t *)(s)->var->data)
static int validate_int_range(struct cat_object *self, int64_t val)
__CPROVER_requires(VAR_PRE(self))
__CPROVER_assigns(self->write_size; NOTRO(self) : __CPROVER_object_upto(self->var->data, self->var->data_size))
/* [C08:sval-readonly]   */ __CPROVER_ensures(!NOTRO(self) ==> (RET == 0 && self->write_size == 0))
/* [C04:sval-store]      */ __CPROVER_ensures((NOTRO(self) && SFITS(self, val)) ==> (RET == 0 && self->write_size == self->var->data_size && SLOAD(self) == val))
/* [C04:sval-reject]     */ __CPROVER_ensures((NOTRO(self) && !SFITS(self, val)) ==> (RET == -1 && (g_j < self->var->data_size ==> VDATA(self)[g_j] == g_oldbyte)))
;

/* hex byte buffer: NT = number of text characters consumed before the last one */
#define NT (self->position - 1 - POS0)
static int parse_buffer_hexadecimal(struct cat_object *self)
__CPROVER_requires(DECODER_PRE(self) && VAR_PRE(self))
__CPROVER_requires(g_j < self->var->data_size ==> VDATA(self)[g_j] == g_oldbyte)
__CPROVER_assigns(self->position, self->write_size, __CPROVER_object_upto(self->var->data, self->var->data_size))
/* [C03,C05:bhex-cursor] */ __CPROVER_ensures(POS0 < self->position && self->position <= g_len + 1)
/* [C05:bhex-retcode]    */ __CPROVER_ensures(RET == -1 || RET == 0 || RET == 1)
/* [C05:bhex-digits]     */ __CPROVER_ensures((POS0 <= g_k && g_k < g_len && g_k + 1 < self->position) ==> V_ISHEX(ABUF(self)[g_k]))
/* [C05:bhex-accept]     */ __CPROVER_ensures(RET >= 0 ==> (NT >= 2 && NT % 2 == 0 && NT / 2 <= self->var->data_size && V_ISTERM(LASTC) && ((RET == 1) == (LASTC == ','))))
/* [C05,C08:bhex-size]   */ __CPROVER_ensures(RET >= 0 ==> self->write_size == (NOTRO(self) ? NT / 2 : 0))
/* [C05:bhex-exact]      */ __CPROVER_ensures((RET >= 0 && NOTRO(self) && g_j < NT / 2 && g_j < self->var->data_size) ==> VDATA(self)[g_j] == V_HEXVAL(ABUF(self)[POS0 + 2 * g_j]) * 16 + V_HEXVAL(ABUF(self)[POS0 + 2 * g_j + 1]))
/* [C05,C08:bhex-rest]   */ __CPROVER_ensures((g_j < self->var->data_size && (!NOTRO(self) || g_j >= NT / 2)) ==> VDATA(self)[g_j] == g_oldbyte)
/* [C05:bhex-reject]     */ __CPROVER_ensures(RET < 0 ==> ((!V_ISHEX(LASTC) && (!V_ISTERM(LASTC) || NT % 2 == 1 || NT == 0)) || (V_ISHEX(LASTC) && NT == 2 * self->var->data_size + 1)))
;

/* quoted string */
#define SEXTRA (NT - 1 - g_size - g_nesc)
static int parse_buffer_string(struct cat_object *self)
__CPROVER_requires(DECODER_PRE(self) && VAR_PRE(self))
__CPROVER_requires(g_j < self->var->data_size ==> VDATA(self)[g_j] == g_oldbyte)
__CPROVER_assigns(self->position, self->write_size, g_size, g_nesc, g_src, g_esc, __CPROVER_object_upto(self->var->data, self->var->data_size))
/* [C03,C05:str-cursor]  */ __CPROVER_ensures(POS0 < self->position && self->position <= g_len + 1)
/* [C05:str-retcode]     */ __CPROVER_ensures(RET == -1 || RET == 0 || RET == 1)
/* [C05:str-accept]      */ __CPROVER_ensures(RET >= 0 ==> (ABUF(self)[POS0] == '"' && NT >= 2 && ABUF(self)[self->position - 2] == '"' && NT == g_size + g_nesc + 2 && g_size + 1 <= self->var->data_size && V_ISTERM(LASTC) && ((RET == 1) == (LASTC == ','))))
/* [C05,C08:str-size]    */ __CPROVER_ensures(RET >= 0 ==> self->write_size == (NOTRO(self) ? g_size : 0))
/* [C05:str-nul]         */ __CPROVER_ensures((RET >= 0 && NOTRO(self) && g_size < self->var->data_size) ==> VDATA(self)[g_size] == 0)
/* [C05:str-source]      */ __CPROVER_ensures((RET >= 0 && g_j < g_size) ==> (POS0 < g_src && g_src < self->position && g_src + 2 < self->position && (g_esc ? (V_ISESC(ABUF(self)[g_src]) && ABUF(self)[g_src - 1] == '\\') : (ABUF(self)[g_src] != '\\' && ABUF(self)[g_src] != '"' && ABUF(self)[g_src] != 0))))
/* [C05:str-exact]       */ __CPROVER_ensures((RET >= 0 && NOTRO(self) && g_j < g_size && g_j < self->var->data_size && g_src < self->position) ==> VDATA(self)[g_j] == (uint8_t)(g_esc ? V_UNESC(ABUF(self)[g_src]) : ABUF(self)[g_src]))
/* [C05,C08:str-rest]    */ __CPROVER_ensures((g_j < self->var->data_size && (!NOTRO(self) || g_j > g_size || (RET < 0 && g_j >= g_size))) ==> VDATA(self)[g_j] == g_oldbyte)
/* [C05:str-reject]      */ __CPROVER_ensures(RET < 0 ==> ((NT == 0 && LASTC != '"') || (NT >= 1 && SEXTRA == 0 && (LASTC == 0 || (LASTC != '\\' && LASTC != '"' && g_size >= self->var->data_size))) || (NT >= 2 && SEXTRA == 1 && ABUF(self)[self->position - 2] == '\\' && (!V_ISESC(LASTC) || g_size >= self->var->data_size)) || (NT >= 2 && SEXTRA == 1 && ABUF(self)[self->position - 2] == '"' && (!V_ISTERM(LASTC) || g_size >= self->var->data_size))))
;

/* ------------------------------------------------------------------------------------------------
 * response formatting
 * ---------------------------------------------------------------------------------------------- */
#define ISFSM(f)      ((f) == CAT_FSM_TYPE_ATCMD || (f) == CAT_FSM_TYPE_UNSOLICITED)
#define CAPF(s, f)    ((f) == CAT_FSM_TYPE_ATCMD ? CAP_AT(s) : CAP_UN(s))
#define POSF(s, f)    ((f) == CAT_FSM_TYPE_ATCMD ? (s)->position : (s)->unsolicited_fsm.position)
#define UBUF(s)       (((s)->desc->unsolicited_buf != NULL) ? (s)->desc->unsolicited_buf : &(s)->desc->buf[(s)->desc->buf_size >> 1])
#define BUFF(s, f)    ((f) == CAT_FSM_TYPE_ATCMD ? ABUF(s) : UBUF(s))
#define VARF(s, f)    ((f) == CAT_FSM_TYPE_ATCMD ? (s)->var : (s)->unsolicited_fsm.var)
#define FMT_PRE(s, f) (ISFSM(f) && POSF(s, f) <= CAPF(s, f))
/* frame of every formatter: the cursor of its machine and the half of its machine, nothing else */
#define FMT_ASSIGNS \
        fsm == CAT_FSM_TYPE_ATCMD : self->position; fsm == CAT_FSM_TYPE_UNSOLICITED : self->unsolicited_fsm.position; \
        (fsm == CAT_FSM_TYPE_ATCMD && self->desc->unsolicited_buf != NULL) : __CPROVER_object_upto(self->desc->buf, self->desc->buf_size); \
        (fsm == CAT_FSM_TYPE_ATCMD && self->desc->unsolicited_buf == NULL) : __CPROVER_object_upto(self->desc->buf, self->desc->buf_size >> 1); \
        (fsm == CAT_FSM_TYPE_UNSOLICITED && self->desc->unsolicited_buf != NULL) : __CPROVER_object_upto(self->desc->unsolicited_buf, self->desc->unsolicited_buf_size); \
        (fsm == CAT_FSM_TYPE_UNSOLICITED && self->desc->unsolicited_buf == NULL) : __CPROVER_object_upto(&self->desc->buf[self->desc->buf_size >> 1], self->desc->buf_size >> 1)
#define OPOS          (fsm == CAT_FSM_TYPE_ATCMD ? OLD(self->position) : OLD(self->unsolicited_fsm.position))
#define NPOS          POSF(self, fsm)
#define FB            BUFF(self, fsm)
/* the text that was in the half below g_pfx (a ghost bound <= the cursor of the outermost formatter call) is left alone;
 * witness index g_k, its value before the call in g_oldtext */
#define PREFIX_PRE    (g_pfx <= POSF(self, fsm) && (g_k < g_pfx ==> BUFF(self, fsm)[g_k] == g_oldtext))
#define PREFIX_KEPT   (g_k < g_pfx ==> FB[g_k] == g_oldtext)
/* format_* level: own pair of ghosts; at entry the helper-level pair equals it (refreshed by the loop ghosts before each helper call) */
#define PREFIX1_PRE   (g_pfx1 <= POSF(self, fsm) && (g_k < g_pfx1 ==> BUFF(self, fsm)[g_k] == g_oldtext1) && g_pfx == g_pfx1 && g_oldtext == g_oldtext1)
#define PREFIX1_KEPT  (g_k < g_pfx1 ==> FB[g_k] == g_oldtext1)

static int print_nstring_to_buf(struct cat_object *self, const char *str, size_t len, cat_fsm_type fsm)
__CPROVER_requires(FMT_PRE(self, fsm))
__CPROVER_requires(PREFIX_PRE)
__CPROVER_assigns(FMT_ASSIGNS)
/* [C03,C19:pn-refuse]   */ __CPROVER_ensures(RET == ((len >= CAPF(self, fsm) - OPOS) ? -1 : 0))
/* [C19:pn-refuse-clean] */ __CPROVER_ensures(RET == -1 ==> NPOS == OPOS)
/* [C03,C19:pn-append]   */ __CPROVER_ensures(RET == 0 ==> (NPOS == OPOS + len && NPOS < CAPF(self, fsm) && FB[NPOS] == 0))
/* [C19:pn-ends]         */ __CPROVER_ensures((RET == 0 && len >= 1) ==> (FB[OPOS] == (uint8_t)str[0] && FB[NPOS - 1] == (uint8_t)str[len - 1]))
/* [C19:pn-text]         */ __CPROVER_ensures((RET == 0 && g_j < len) ==> FB[OPOS + g_j] == (uint8_t)str[g_j])
/* [C19:pn-prefix]       */ __CPROVER_ensures(PREFIX_KEPT)
;

#define HEXCH(n)      ((uint8_t)((n) < 10 ? '0' + (n) : 'A' + ((n) - 10)))
/* length of a short NUL-terminated text (spec side; 9 = longer than anything the formatters print through this helper) */
static size_t s_len8(const char *t)
{
        size_t i;
        for (i = 0; i < 9; i++)
                if (t[i] == 0)
                        return i;
        return 9;
}

static int print_string_to_buf(struct cat_object *self, const char *str, cat_fsm_type fsm)
__CPROVER_requires(FMT_PRE(self, fsm) && s_len8(str) <= 8)
__CPROVER_requires(PREFIX_PRE)
__CPROVER_assigns(FMT_ASSIGNS)
/* [C03,C19:ps-refuse]   */ __CPROVER_ensures(RET == ((s_len8(str) >= CAPF(self, fsm) - OPOS) ? -1 : 0))
/* [C19:ps-refuse-clean] */ __CPROVER_ensures(RET == -1 ==> NPOS == OPOS)
/* [C03,C19:ps-append]   */ __CPROVER_ensures(RET == 0 ==> (NPOS == OPOS + s_len8(str) && NPOS < CAPF(self, fsm) && FB[NPOS] == 0))
/* [C19:ps-ends]         */ __CPROVER_ensures((RET == 0 && s_len8(str) >= 1) ==> (FB[OPOS] == (uint8_t)str[0] && FB[NPOS - 1] == (uint8_t)str[s_len8(str) - 1]))
/* [C19:ps-prefix]       */ __CPROVER_ensures(PREFIX_KEPT)
;

/* the canonical numerals the property text speaks of (written from the statement; width-bounded loops) */
static _Bool s_is_decimal_of(const uint8_t *t, size_t n, unsigned long long mag)
{
        unsigned long long h = 0;
        size_t i;
        if (n < 1 || n > 10 || (n > 1 && t[0] == '0'))
                return 0;
        for (i = 0; i < 10; i++)
                if (i < n) {
                        if (!V_ISDIGIT(t[i]))
                                return 0;
                        h = h * 10ULL + (unsigned long long)(t[i] - '0');
                }
        return h == mag;
}
static _Bool s_is_hex_of(const uint8_t *t, size_t w, unsigned int v)
{
        size_t i;
        for (i = 0; i < 8; i++)
                if (i < w) {
                        unsigned int nib = (v >> (4 * (w - 1 - i))) & 0xFu;
                        if (t[i] != (uint8_t)(nib < 10 ? '0' + nib : 'A' + (nib - 10)))
                                return 0;
                }
        return 1;
}
/* text t[0..n) is the numeral snprintf(fmt, v) must produce */
static _Bool s_is_numeral(const uint8_t *t, size_t n, int kind, unsigned int v)
{
        switch (kind) {
        case 0: return ((int)v < 0) ? (n >= 2 && t[0] == '-' && s_is_decimal_of(t + 1, n - 1, (unsigned long long)(-(long long)(int)v))) : s_is_decimal_of(t, n, v);
        case 1: return s_is_decimal_of(t, n, v);
        case 2: return n == 2 && s_is_hex_of(t, 2, v);
        case 3: return n == 4 && t[0] == '0' && t[1] == 'x' && s_is_hex_of(t + 2, 2, v);
        case 4: return n == 6 && t[0] == '0' && t[1] == 'x' && s_is_hex_of(t + 2, 4, v);
        case 5: return n == 10 && t[0] == '0' && t[1] == 'x' && s_is_hex_of(t + 2, 8, v);
        default: return 0;
        }
}
static int s_fmt_kind(const char *f)
{
        if (f[0] == '%' && f[1] == 'd' && f[2] == 0) return 0;
        if (f[0] == '%' && f[1] == 'u' && f[2] == 0) return 1;
        if (f[0] == '%' && f[1] == '0' && f[2] == '2' && f[3] == 'X' && f[4] == 0) return 2;
        if (f[0] == '0' && f[1] == 'x' && f[2] == '%' && f[3] == '0' && f[5] == 'X' && f[6] == 0)
                return f[4] == '2' ? 3 : f[4] == '4' ? 4 : f[4] == '8' ? 5 : -1;
        return -1;
}

static int print_format_num(struct cat_object *self, char *fmt, uint32_t val, cat_fsm_type fsm)
__CPROVER_requires(FMT_PRE(self, fsm) && s_fmt_kind(fmt) >= 0 && (s_fmt_kind(fmt) < 2 || s_fmt_kind(fmt) == 5 || val <= (s_fmt_kind(fmt) == 4 ? 0xFFFFu : 0xFFu)))
__CPROVER_requires(PREFIX_PRE)
__CPROVER_assigns(FMT_ASSIGNS)
/* [C19:pf-retcode]      */ __CPROVER_ensures(RET == 0 || RET == -1)
/* [C07,C19:pf-refuse-clean] */ __CPROVER_ensures(RET == -1 ==> NPOS == OPOS)
/* [C03,C07:pf-append]   */ __CPROVER_ensures(RET == 0 ==> (NPOS > OPOS && NPOS < CAPF(self, fsm) && FB[NPOS] == 0))
#ifndef PF_LIGHT
/* [C07,C08:pf-numeral]  */ __CPROVER_ensures(RET == 0 ==> s_is_numeral(&FB[OPOS], NPOS - OPOS, s_fmt_kind(fmt), val))
#else
/* [C07:pf-hex2]         */ __CPROVER_ensures((RET == 0 && s_fmt_kind(fmt) == 2) ==> (NPOS == OPOS + 2 && FB[OPOS] == HEXCH((val >> 4) & 15) && FB[OPOS + 1] == HEXCH(val & 15)))
#endif
/* [C07,C19:pf-prefix]   */ __CPROVER_ensures(PREFIX_KEPT)
;

/* value a numeric variable must be reported as: its content, or zero when write-only (C08) */
#define VF            VARF(self, fsm)
#define WO(v)         ((v)->access == CAT_VAR_ACCESS_WRITE_ONLY)
#define SZOK(v)       ((v)->data_size == 1 || (v)->data_size == 2 || (v)->data_size == 4)
#define ULOADV(v)     ((v)->data_size == 1 ? (uint32_t)*(uint8_t *)(v)->data : (v)->data_size == 2 ? (uint32_t)*(uint16_t *)(v)->data : *(uint32_t *)(v)->data)
#define SLOADV(v)     ((v)->data_size == 1 ? (int32_t)*(int8_t *)(v)->data : (v)->data_size == 2 ? (int32_t)*(int16_t *)(v)->data : *(int32_t *)(v)->data)
#define FVAR_PRE(s, f) (FMT_PRE(s, f) && VARF(s, f)->data_size >= 1 && VARF(s, f)->data_size <= 64 && VARF(s, f)->access >= CAT_VAR_ACCESS_READ_WRITE && VARF(s, f)->access <= CAT_VAR_ACCESS_WRITE_ONLY)

static int format_int_decimal(struct cat_object *self, cat_fsm_type fsm)
__CPROVER_requires(FVAR_PRE(self, fsm))
__CPROVER_requires(PREFIX1_PRE)
__CPROVER_assigns(g_pfx, g_oldtext; FMT_ASSIGNS)
/* [C07:fi-size]         */ __CPROVER_ensures(!SZOK(VF) ==> (RET == -1 && NPOS == OPOS))
/* [C07:fi-refuse-clean] */ __CPROVER_ensures(RET == -1 ==> NPOS == OPOS)
/* [C03,C07:fi-cursor]   */ __CPROVER_ensures(RET == 0 ==> (SZOK(VF) && NPOS > OPOS && NPOS < CAPF(self, fsm) && FB[NPOS] == 0))
/* [C07:fi-prefix]       */ __CPROVER_ensures(PREFIX1_KEPT)
;

static int format_uint_decimal(struct cat_object *self, cat_fsm_type fsm)
__CPROVER_requires(FVAR_PRE(self, fsm))
__CPROVER_requires(PREFIX1_PRE)
__CPROVER_assigns(g_pfx, g_oldtext; FMT_ASSIGNS)
/* [C07:fu-size]         */ __CPROVER_ensures(!SZOK(VF) ==> (RET == -1 && NPOS == OPOS))
/* [C07:fu-refuse-clean] */ __CPROVER_ensures(RET == -1 ==> NPOS == OPOS)
/* [C03,C07:fu-cursor]   */ __CPROVER_ensures(RET == 0 ==> (SZOK(VF) && NPOS > OPOS && NPOS < CAPF(self, fsm) && FB[NPOS] == 0))
/* [C07:fu-prefix]       */ __CPROVER_ensures(PREFIX1_KEPT)
;

static int format_num_hexadecimal(struct cat_object *self, cat_fsm_type fsm)
__CPROVER_requires(FVAR_PRE(self, fsm))
__CPROVER_requires(PREFIX1_PRE)
__CPROVER_assigns(g_pfx, g_oldtext; FMT_ASSIGNS)
/* [C07:fh-size]         */ __CPROVER_ensures(!SZOK(VF) ==> (RET == -1 && NPOS == OPOS))
/* [C07:fh-refuse-clean] */ __CPROVER_ensures(RET == -1 ==> NPOS == OPOS)
/* [C03,C07:fh-cursor]   */ __CPROVER_ensures(RET == 0 ==> (SZOK(VF) && NPOS > OPOS && NPOS < CAPF(self, fsm) && FB[NPOS] == 0))
/* [C07:fh-prefix]       */ __CPROVER_ensures(PREFIX1_KEPT)
;

#define VBYTE(v, k)   (WO(v) ? 0 : ((uint8_t *)(v)->data)[k])
static int format_buffer_hexadecimal(struct cat_object *self, cat_fsm_type fsm)
__CPROVER_requires(FVAR_PRE(self, fsm))
__CPROVER_requires(PREFIX1_PRE)
__CPROVER_assigns(g_pfx, g_oldtext; FMT_ASSIGNS)
/* [C07:fb-retcode]      */ __CPROVER_ensures(RET == 0 || RET == -1)
/* [C07:fb-length]       */ __CPROVER_ensures(RET == 0 ==> (NPOS == OPOS + 2 * VF->data_size && NPOS < CAPF(self, fsm) && FB[NPOS] == 0))
/* [C07,C08:fb-text]     */ __CPROVER_ensures((RET == 0 && OPOS <= g_k && g_k < NPOS) ==> FB[g_k] == (((g_k - OPOS) & 1) == 0 ? HEXCH(VBYTE(VF, (g_k - OPOS) >> 1) >> 4) : HEXCH(VBYTE(VF, (g_k - OPOS) >> 1) & 15)))
/* [C07:fb-prefix]       */ __CPROVER_ensures(PREFIX1_KEPT)
;

static int format_buffer_string(struct cat_object *self, cat_fsm_type fsm)
__CPROVER_requires(FVAR_PRE(self, fsm))
__CPROVER_requires(PREFIX1_PRE)
__CPROVER_assigns(g_pfx, g_oldtext; FMT_ASSIGNS)
/* [C07:fs-retcode]      */ __CPROVER_ensures(RET == 0 || RET == -1)
/* [C07:fs-quotes]       */ __CPROVER_ensures(RET == 0 ==> (NPOS >= OPOS + 2 && NPOS < CAPF(self, fsm) && FB[NPOS] == 0 && FB[NPOS - 1] == '"' && (g_k == OPOS ==> FB[g_k] == '"')))
/* [C08:fs-write-only]   */ __CPROVER_ensures((RET == 0 && WO(VF)) ==> NPOS == OPOS + 2)
/* [C07:fs-prefix]       */ __CPROVER_ensures(PREFIX1_KEPT)
;

/* TEST-response token of one variable: g_exp / g_explen are computed by the harness with the text-level specification
 * (contracts/spec_text.h, x_token) before the call; g_explen == (size_t)-1 when the statement defines no token */
static char g_exp[X_TOKMAX + 1];
static size_t g_explen;
static int format_info_type(struct cat_object *self, cat_fsm_type fsm)
__CPROVER_requires(FMT_PRE(self, fsm) && VARF(self, fsm)->data_size >= 1 && VARF(self, fsm)->data_size <= 64 && VARF(self, fsm)->access >= CAT_VAR_ACCESS_READ_WRITE && VARF(self, fsm)->access <= CAT_VAR_ACCESS_WRITE_ONLY)
__CPROVER_requires(PREFIX_PRE)
__CPROVER_assigns(FMT_ASSIGNS)
/* [C19:tok-retcode]     */ __CPROVER_ensures(RET == 0 || RET == -1)
/* [C19:tok-refuse]      */ __CPROVER_ensures((RET == -1) == (g_explen == (size_t)-1 || g_explen >= CAPF(self, fsm) - OPOS))
/* [C19:tok-length]      */ __CPROVER_ensures(RET == 0 ==> (NPOS == OPOS + g_explen && NPOS < CAPF(self, fsm) && FB[NPOS] == 0))
/* [C19:tok-text]        */ __CPROVER_ensures((RET == 0 && OPOS <= g_k && g_k < NPOS && g_k - OPOS < X_TOKMAX) ==> FB[g_k] == (uint8_t)g_exp[g_k - OPOS])
/* [C19:tok-prefix]      */ __CPROVER_ensures(PREFIX_KEPT)
;

#endif
