#include "leaf_contracts.h"
#include CAT_C
#include "l0_common.h"
int64_t nondet_i64(void);
void harness(void)
{
        h_obj.desc = &h_desc;
        h_setup_var(CAT_VAR_INT_DEC);
        validate_int_range(&h_obj, nondet_i64());
        __CPROVER_assert(0, "CANARY end of harness reachable");
}
