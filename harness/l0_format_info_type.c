#ifndef X_MAXTXT
#define X_MAXTXT 40
#endif
#include "leaf_contracts.h"
#include "spec_text.h"
#include "models.h"
#include CAT_C
#include "l0_common.h"
#ifndef NAME_MAX_LEN
#define NAME_MAX_LEN 12
#endif

void harness(void)
{
        static char vname[NAME_MAX_LEN + 1];
        size_t cap = h_setup_buffers(), q;
        (void)cap;
        int f = nondet_int(), t = nondet_int();
        cat_fsm_type fsm = (cat_fsm_type)f;
        __CPROVER_assume(t >= CAT_VAR_INT_DEC && t <= CAT_VAR_BUF_STRING);
        h_setup_var_f((cat_var_type)t, fsm);
        for (q = 0; q < NAME_MAX_LEN; q++) vname[q] = (char)nondet_uchar();
        vname[NAME_MAX_LEN] = 0;
        h_var.name = nondet_bool() ? vname : NULL;
        h_obj.position = nondet_size();
        h_obj.unsolicited_fsm.position = nondet_size();
        g_k = nondet_size();
        for (q = 0; q < X_TOKMAX + 1; q++) g_exp[q] = 0;
        g_explen = x_token(g_exp, 0, &h_var, NAME_MAX_LEN);
        if (f == CAT_FSM_TYPE_ATCMD || f == CAT_FSM_TYPE_UNSOLICITED) {
                size_t p = (f == CAT_FSM_TYPE_ATCMD) ? h_obj.position : h_obj.unsolicited_fsm.position;
                size_t c = (f == CAT_FSM_TYPE_ATCMD) ? CAP_AT(&h_obj) : CAP_UN(&h_obj);
                g_pfx = nondet_size();
                if (g_pfx <= p && p <= c && g_k < g_pfx)
                        g_oldtext = BUFF(&h_obj, fsm)[g_k];
        }
        format_info_type(&h_obj, fsm);
        __CPROVER_assert(0, "CANARY end of harness reachable");
}
