#include "leaf_contracts.h"
#include "models.h"
#include CAT_C
#include "l0_common.h"

void harness(void)
{
        size_t cap = h_setup_buffers();
        (void)cap;
        int f = nondet_int();
        cat_fsm_type fsm = (cat_fsm_type)f;
        h_setup_var_f(CAT_VAR_UINT_DEC, fsm);
        h_obj.position = nondet_size();
        h_obj.unsolicited_fsm.position = nondet_size();
        g_k = nondet_size(); g_j = nondet_size();
        if (f == CAT_FSM_TYPE_ATCMD || f == CAT_FSM_TYPE_UNSOLICITED) {
                size_t p = (f == CAT_FSM_TYPE_ATCMD) ? h_obj.position : h_obj.unsolicited_fsm.position;
                size_t c = (f == CAT_FSM_TYPE_ATCMD) ? CAP_AT(&h_obj) : CAP_UN(&h_obj);
                g_pfx1 = nondet_size();
                if (g_pfx1 <= p && p <= c && g_k < g_pfx1)
                        g_oldtext1 = BUFF(&h_obj, fsm)[g_k];
                g_pfx = g_pfx1; g_oldtext = g_oldtext1;
        }
        format_uint_decimal(&h_obj, fsm);
        __CPROVER_assert(0, "CANARY end of harness reachable");
}
