/* L2 lemma: formatting and parsing are mutually inverse (C07), write-only variables are reported as
 * zero / empty (C08).  The REAL format_* and parse_* / validate_* functions of cat.c run back to back on
 * the same working buffer; every bit pattern of the variable is covered; loops are bounded by the width
 * of the text (<= 2*RT_DS+3 characters) and closed with unwinding assertions, so for numeric types the result
 * is complete.  RT_TYPE selects the variable type, RT_DS the maximal data_size of buffer types. */
#include "leaf_contracts.h"
#include "models.h"
#include CAT_C
#include <stdlib.h>

#ifndef RT_CAP
#define RT_CAP 24
#endif
#ifndef RT_DS
#define RT_DS 4
#endif
size_t nondet_size(void); unsigned char nondet_uchar(void); int nondet_int(void); _Bool nondet_bool(void);

static struct cat_object o; static struct cat_descriptor d; static struct cat_variable v;
static uint8_t buf[RT_CAP]; static uint8_t ubuf[RT_CAP];
static struct cat_variable vdecoy; static uint8_t decoy[RT_DS] __attribute__((aligned(4)));
static cat_fsm_type fsm; /* which machine formats: its own cursor, half and current variable; the other machine's variable is a decoy */
static uint8_t data[RT_DS] __attribute__((aligned(4))); static uint8_t saved[RT_DS];

static int do_format(void)
{
        switch (RT_TYPE) {
        case CAT_VAR_INT_DEC: return format_int_decimal(&o, fsm);
        case CAT_VAR_UINT_DEC: return format_uint_decimal(&o, fsm);
        case CAT_VAR_NUM_HEX: return format_num_hexadecimal(&o, fsm);
        case CAT_VAR_BUF_HEX: return format_buffer_hexadecimal(&o, fsm);
        default: return format_buffer_string(&o, fsm);
        }
}

static int do_parse(void)
{
        int64_t val; int st;
        switch (RT_TYPE) {
        case CAT_VAR_INT_DEC: st = parse_int_decimal(&o, &val); if (st < 0) return st; if (validate_int_range(&o, val) != 0) return -2; return st;
        case CAT_VAR_UINT_DEC: st = parse_uint_decimal(&o, (uint64_t *)&val); if (st < 0) return st; if (validate_uint_range(&o, val) != 0) return -2; return st;
        case CAT_VAR_NUM_HEX: st = parse_num_hexadecimal(&o, (uint64_t *)&val); if (st < 0) return st; if (validate_uint_range(&o, val) != 0) return -2; return st;
        case CAT_VAR_BUF_HEX: return parse_buffer_hexadecimal(&o);
        default: return parse_buffer_string(&o);
        }
}

void harness(void)
{
        size_t i, ds = nondet_size();
        _Bool numeric = (RT_TYPE == CAT_VAR_INT_DEC || RT_TYPE == CAT_VAR_UINT_DEC || RT_TYPE == CAT_VAR_NUM_HEX);
        d.buf = buf; d.buf_size = RT_CAP; d.unsolicited_buf = ubuf; d.unsolicited_buf_size = RT_CAP;
        o.desc = &d;
        if (numeric) __CPROVER_assume(ds == 1 || ds == 2 || ds == 4); else __CPROVER_assume(ds >= 1 && ds <= RT_DS);
        v.type = RT_TYPE; v.data = data; v.data_size = ds; v.name = NULL; v.write = NULL; v.read = NULL;
        for (i = 0; i < RT_DS; i++) data[i] = nondet_uchar();
        for (i = 0; i < RT_CAP; i++) buf[i] = nondet_uchar();
        if (RT_TYPE == CAT_VAR_BUF_STRING) {
                /* strings: bytes 0x01-0xFF except CR, NUL-terminated inside data_size (domain of the statement) */
                size_t z = nondet_size();
                __CPROVER_assume(z < ds);
                data[z] = 0;
                for (i = 0; i < RT_DS; i++) __CPROVER_assume(i >= z || (data[i] != 0 && data[i] != '\r'));
        }
        /* decoy: same type, readable, other contents: belongs to the other machine */
        vdecoy = v; vdecoy.data = decoy; vdecoy.access = CAT_VAR_ACCESS_READ_WRITE;
        for (i = 0; i < RT_DS; i++) decoy[i] = nondet_uchar();
        if (RT_TYPE == CAT_VAR_BUF_STRING) decoy[ds - 1] = 0;
#ifdef RT_UNTERMINATED
        /* a string variable completely filled with non-NUL bytes (an application may do that): the formatter must stop at
         * data_size; the storage is an object of exactly data_size bytes, so reading one byte further is caught */
        {
                uint8_t *exact = malloc(ds);
                __CPROVER_assume(exact != NULL);
                for (i = 0; i < RT_DS; i++) if (i < ds) { exact[i] = nondet_uchar(); __CPROVER_assume(exact[i] != 0 && exact[i] != '\\' && exact[i] != '"' && exact[i] != '\n'); }
                v.data = exact; v.access = CAT_VAR_ACCESS_READ_WRITE;
                fsm = nondet_bool() ? CAT_FSM_TYPE_ATCMD : CAT_FSM_TYPE_UNSOLICITED;
                if (fsm == CAT_FSM_TYPE_ATCMD) { o.var = &v; o.unsolicited_fsm.var = &vdecoy; } else { o.var = &vdecoy; o.unsolicited_fsm.var = &v; }
                o.position = 0; o.unsolicited_fsm.position = 0;
                int r = do_format();
                const char *t = (fsm == CAT_FSM_TYPE_ATCMD) ? (const char *)buf : (const char *)ubuf;
                size_t p = (fsm == CAT_FSM_TYPE_ATCMD) ? o.position : o.unsolicited_fsm.position;
                _Bool ok = (r == 0) && p == ds + 2 && t[0] == '"' && t[ds + 1] == '"' && t[ds + 2] == 0;
                for (i = 0; i < RT_DS; i++) if (i < ds && (uint8_t)t[1 + i] != exact[i]) ok = 0;
                __CPROVER_assert(ok, "[C03,C07:string-full] a string that fills its data_size is printed as exactly data_size characters");
        }
#elif defined(RT_WRITE_ONLY)
        fsm = nondet_bool() ? CAT_FSM_TYPE_ATCMD : CAT_FSM_TYPE_UNSOLICITED;
        if (fsm == CAT_FSM_TYPE_ATCMD) { o.var = &v; o.unsolicited_fsm.var = &vdecoy; } else { o.var = &vdecoy; o.unsolicited_fsm.var = &v; }
        for (i = 0; i < RT_CAP; i++) ubuf[i] = nondet_uchar();
        v.access = CAT_VAR_ACCESS_WRITE_ONLY;
        o.position = 0; o.unsolicited_fsm.position = 0;
        if (do_format() == 0) {
                const char *t = (fsm == CAT_FSM_TYPE_ATCMD) ? (const char *)buf : (const char *)ubuf;
                if (RT_TYPE == CAT_VAR_INT_DEC || RT_TYPE == CAT_VAR_UINT_DEC)
                        __CPROVER_assert(t[0] == '0' && t[1] == 0, "[C08:wo-decimal-zero] a write-only decimal variable is reported as 0");
                else if (RT_TYPE == CAT_VAR_NUM_HEX) {
                        _Bool ok = t[0] == '0' && t[1] == 'x' && t[2 + 2 * ds] == 0;
                        for (i = 0; i < 8; i++) if (i < 2 * ds && t[2 + i] != '0') ok = 0;
                        __CPROVER_assert(ok, "[C08:wo-hex-zero] a write-only hex variable is reported as zero");
                } else if (RT_TYPE == CAT_VAR_BUF_HEX) {
                        _Bool ok = t[2 * ds] == 0;
                        for (i = 0; i < 2 * RT_DS; i++) if (i < 2 * ds && t[i] != '0') ok = 0;
                        __CPROVER_assert(ok, "[C08:wo-hexbuf-zero] a write-only byte buffer is reported as zeros");
                } else
                        __CPROVER_assert(t[0] == '"' && t[1] == '"' && t[2] == 0, "[C08:wo-string-empty] a write-only string is reported as empty");
        }
#else
        fsm = CAT_FSM_TYPE_ATCMD; o.var = &v; o.unsolicited_fsm.var = &vdecoy;
        v.access = nondet_bool() ? CAT_VAR_ACCESS_READ_WRITE : CAT_VAR_ACCESS_READ_ONLY;
        o.position = 0;
        int fr = do_format();
        /* the text fits this buffer for every value (capacity chosen accordingly), so formatting cannot refuse */
        __CPROVER_assert(fr == 0, "[C07:format-succeeds] the response text of every value fits and is produced");
        if (fr == 0) {
                size_t len = o.position;
                __CPROVER_assert(len < RT_CAP && buf[len] == 0, "[C07:format-terminated] formatted text is NUL-terminated inside the buffer");
                for (i = 0; i < RT_DS; i++) saved[i] = data[i];
                /* the WRITE goes to a read-write variable holding anything */
                v.access = CAT_VAR_ACCESS_READ_WRITE;
                for (i = 0; i < RT_DS; i++) data[i] = nondet_uchar();
                o.length = len; o.position = 0; g_len = len;
                int pr = do_parse();
                __CPROVER_assert(pr == 0, "[C07:roundtrip-accepted] the printed argument text is accepted by the decoder of the same type");
                _Bool same = 1;
                if (RT_TYPE == CAT_VAR_BUF_STRING) {
                        for (i = 0; i < RT_DS; i++) { if (i < ds && saved[i] != data[i]) same = 0; if (i < ds && saved[i] == 0) break; }
                } else
                        for (i = 0; i < RT_DS; i++) if (i < ds && saved[i] != data[i]) same = 0;
                __CPROVER_assert(pr != 0 || same, "[C07:roundtrip-value] the variable holds exactly the value it had");
                __CPROVER_assert(pr != 0 || o.position == len + 1, "[C07:roundtrip-whole-text] the decoder consumed the whole printed text");
        }
#endif
        __CPROVER_assert(0, "CANARY end of harness reachable");
}
