#include "leaf_contracts.h"
#include CAT_C
#include "l0_common.h"

void harness(void)
{
        size_t cap = h_setup_buffers();
        (void)cap;
        h_setup_var(CAT_VAR_BUF_HEX);
        g_len = nondet_size();
        g_k = nondet_size();
        g_sat = 0; g_ndig = 0; g_size = 0; g_nesc = 0;
        h_obj.position = nondet_size();
        parse_buffer_hexadecimal(&h_obj);
        __CPROVER_assert(0, "CANARY end of harness reachable");
}
