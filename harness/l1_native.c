/* State-injection replay (R2) of a step obligation on the real library: the counterexample's
 * pre-state (every named harness variable) is written into the real objects, the real function is
 * called with the recorded environment choices, and the failed clause is re-evaluated natively.
 * Compiled by bin/replay.py with -DNATIVE_REPLAY, the shape defines of the job, and two generated
 * files: native_state.inc (assignments) and native_clause.inc (the clause expression).
 * cat.c is compiled WITHOUT the verification guard: this is the shipped code. */
#include "l1_env.h"
#define EV_GHOST_CLAUSE 1
#define SERVICE_EXTRA_ASSIGNS
#define API_LOCKRULE_ASSIGNS
#include "service_contracts.h"
#include "api_contracts.h"
#include "cat.c"
#include "l1_build.h"
static size_t g_api_cmd, g_api_name; static int g_api_int;
#define A_CMD  h_cmd_at(g_api_cmd)
#define A_INT  g_api_int
#define A_NAME h_names[g_api_name % H_NC]

static struct env_log R; static struct lock_log RL; static struct env_log G_ZERO; /* the log before the call is empty */
static int native_pick_int(const char *who)
{
        if (!strcmp(who, "e_io_read")) return R.rd_avail ? 1 : 0;
        if (!strcmp(who, "e_io_write")) return R.wr_ok ? 1 : 0;
        if (!strcmp(who, "e_ret_code")) return R.h_ret;
        if (!strcmp(who, "e_var_write") || !strcmp(who, "e_var_read")) return R.v_ret;
        if (!strcmp(who, "e_lock")) return RL.lock_ret;
        if (!strcmp(who, "e_unlock")) return RL.unlock_ret;
        return 0;
}
static char native_pick_char(const char *who) { (void)who; return R.rd_ch; }

static struct cat_object w_obj; static uint8_t w_buf[H_BUFSZ]; static uint8_t w_vdata[H_NC][H_NV][H_DS]; static char w_typed[H_NL + 2];
#if !H_SHARED
static uint8_t w_ubuf[H_UBUFSZ + 1];
#endif
static void world_save(void) { w_obj = h_obj; memcpy(w_buf, h_buf, sizeof(h_buf)); memcpy(w_vdata, h_vdata, sizeof(h_vdata)); memcpy(w_typed, g_typed, sizeof(g_typed));
#if !H_SHARED
        memcpy(w_ubuf, h_ubuf, sizeof(h_ubuf));
#endif
}
static void world_restore(void) { h_obj = w_obj; memcpy(h_buf, w_buf, sizeof(h_buf)); memcpy(h_vdata, w_vdata, sizeof(h_vdata)); memcpy(g_typed, w_typed, sizeof(g_typed));
#if !H_SHARED
        memcpy(h_ubuf, w_ubuf, sizeof(h_ubuf));
#endif
}
static void logs_clear(void) { struct env_log z; struct lock_log zl; memset(&z, 0, sizeof z); memset(&zl, 0, sizeof zl); E = z; EL = zl; G_EV = z; }

int main(void)
{
        struct cat_object *self = &h_obj;
        (void)self;
#include "native_state.inc"
        h_apply_choices();                    /* pointers rebuilt from the injected choices, exactly as in the proof harness */
        R = E; RL = EL;                       /* what the environment chose in the counterexample */
        {
                struct env_log keep_in = R;
                logs_clear(); E.in_event = keep_in.in_event;
        }
        g_old = h_obj; memcpy(g_oldbuf, h_buf, sizeof(h_buf)); memcpy(g_oldvdata, h_vdata, sizeof(h_vdata));
#if !H_SHARED
        memcpy(g_oldubuf, h_ubuf, sizeof(h_ubuf));
#endif
        world_save();
#if defined(NATIVE_FN_cat_service)
        /* pre-run of the event machine's step alone, to learn what the log / hold request / witness byte are when it is over */
        if (h_obj.mutex == NULL || RL.lock_ret == 0) {
                EL.held = (h_obj.mutex != NULL);
                (void)unsolicited_events_service(&h_obj);
                G_EV = E; G_HES = h_obj.hold_exit_status; if (g_w < H_CAPU) G_UBYTE = ((const uint8_t *)H_UBUF)[g_w];
        }
        {
                struct env_log gev = G_EV; int ghes = G_HES; uint8_t gub = G_UBYTE;
                world_restore(); logs_clear(); E.in_event = 0; G_EV = gev; G_HES = ghes; G_UBYTE = gub;
        }
        g_ret = cat_service(&h_obj);
#elif defined(NATIVE_FN_unsolicited_events_service)
        E.in_event = 1; EL.held = (h_obj.mutex != NULL);
        g_ret = unsolicited_events_service(&h_obj);
#else
        g_ret = (long long)(NATIVE_CALL);
#endif
        {
                int holds = (
#include "native_clause.inc"
                ) ? 1 : 0;
                printf("native replay: state %d/%d -> %d/%d, return %lld, reads %d (avail %d, byte 0x%02x), writes %d (byte 0x%02x, accepted %d), handler calls %d (kind %d, ret %d)\n",
                       (int)g_old.state, (int)g_old.unsolicited_fsm.state, (int)h_obj.state, (int)h_obj.unsolicited_fsm.state, g_ret, E.rd_calls, E.rd_avail, (unsigned char)E.rd_ch,
                       E.wr_calls, (unsigned char)E.wr_ch, E.wr_ok, E.h_calls, E.h_kind, E.h_ret);
                printf("clause %s on the real code\n", holds ? "HOLDS" : "FAILS");
                return holds ? 0 : 1;
        }
}
