/* Table walks get_command_by_index / is_command_disable against flat registration-order indexing.
 * The harness builds up to T_NG groups of 1..T_GS commands and records, while appending, which
 * command and which group the k-th registered command is (the specification is this record, not
 * a second walk).  Loops are bounded by the number of groups; unwinding assertions on. */
#include <stdlib.h>
#include "spec.h"
#include "cat.h"
#ifndef T_NG
#define T_NG 4
#endif
#ifndef T_GS
#define T_GS 3
#endif
#define T_MAX (T_NG * T_GS)
size_t nondet_size(void); _Bool nondet_bool(void);
static struct cat_command t_cmds[T_NG][T_GS];
static struct cat_command_group t_grp[T_NG];
static struct cat_command_group *t_grp_ptrs[T_NG];
static const struct cat_command *t_flat[T_MAX];
static const struct cat_command_group *t_flat_grp[T_MAX];
static size_t t_total;
static struct cat_object t_obj; static struct cat_descriptor t_desc;

#define OLD(x) __CPROVER_old(x)
#define RET    __CPROVER_return_value
static struct cat_command const* get_command_by_index(struct cat_object *self, size_t index)
__CPROVER_requires(self == &t_obj && index < t_total)
__CPROVER_assigns()
/* [C02,C09:table-index]   */ __CPROVER_ensures(RET == t_flat[index])
;
static bool is_command_disable(struct cat_object *self, size_t index)
__CPROVER_requires(self == &t_obj && index < t_total)
__CPROVER_assigns()
/* [C09:table-disable]     */ __CPROVER_ensures(RET == (t_flat_grp[index]->disable || t_flat[index]->disable))
;
#include CAT_C

void harness(void)
{
        size_t g, k, ng = nondet_size();
        __CPROVER_assume(ng >= 1 && ng <= T_NG);
        t_total = 0;
        for (g = 0; g < T_NG; g++) {
                size_t n = nondet_size();
                __CPROVER_assume(n >= 1 && n <= T_GS);
                t_grp[g].cmd = t_cmds[g]; t_grp[g].cmd_num = n; t_grp[g].disable = nondet_bool() ? 1 : 0; t_grp[g].name = NULL;
                t_grp_ptrs[g] = &t_grp[g];
                for (k = 0; k < T_GS; k++) {
                        t_cmds[g][k].disable = nondet_bool() ? 1 : 0;
                        if (g < ng && k < n) {
                                t_flat[t_total] = &t_cmds[g][k];
                                t_flat_grp[t_total] = &t_grp[g];
                                t_total++;
                        }
                }
        }
        t_desc.cmd_group = t_grp_ptrs; t_desc.cmd_group_num = ng;
        t_obj.desc = &t_desc; t_obj.commands_num = t_total;
        size_t idx = nondet_size();
#ifdef T_DISABLE
        (void)is_command_disable(&t_obj, idx);
#else
        (void)get_command_by_index(&t_obj, idx);
#endif
        __CPROVER_assert(0, "CANARY end of harness reachable");
}
