#include "leaf_contracts.h"
#include CAT_C
#include "l0_common.h"

void harness(void)
{
        int64_t out;
        size_t cap = h_setup_buffers();
        (void)cap;
        g_len = nondet_size();
        g_k = nondet_size();
        g_sat = 0; g_ndig = 0; g_size = 0; g_nesc = 0;
        h_obj.position = nondet_size();
        parse_int_decimal(&h_obj, &out);
        __CPROVER_assert(0, "CANARY end of harness reachable");
}
