/* Native (replay) build of the proof harness: CBMC vocabulary mapped to plain C.  Contract clauses on
 * prototypes vanish (the prototypes stay), assumptions/assertions become no-ops (the pre-state is
 * injected from the counterexample instead of being built from nondeterministic choices), environment
 * stubs take their choices from the recorded log R. */
#ifndef NATIVE_SHIM_H
#define NATIVE_SHIM_H
#include <stdio.h>
#include <string.h>
#define __CPROVER_requires(...)
#define __CPROVER_ensures(...)
#define __CPROVER_assigns(...)
#define __CPROVER_assume(c) ((void)0)
#define __CPROVER_assert(c, m) ((void)0)
#define __CPROVER_old(x) (x)
#define __CPROVER_return_value g_ret
static long long g_ret;
static int g_native_queue;      /* which recorded value a stub draws next (only one per kind and step is recorded) */
static size_t nondet_size(void) { return 0; }
static unsigned char nondet_uchar(void) { return 0; }
static int nondet_int_raw(void) { return 0; }
static _Bool nondet_bool(void) { return 0; }
#define NB() 0
/* the stubs of l1_env.h call nondet_char()/nondet_int() for their choices; natively each stub kind reads the
 * value the counterexample recorded for it (R = copy of the environment log E at the failure) */
struct env_log;
static int native_pick_int(const char *who);
static char native_pick_char(const char *who);
#define nondet_int() native_pick_int(__func__)
#define nondet_char() native_pick_char(__func__)
#endif
