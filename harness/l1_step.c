/* One step of the state machines from an arbitrary state satisfying Inv.
 *   -DJOB_STATE=<cat_state>   : enforce the contract of cat_service, command machine in that state
 *   -DJOB_USTATE=<cat_unsolicited_state> : enforce the contract of unsolicited_events_service
 * The FSM state under proof is assigned concretely (symbolic execution then prunes the switch). */
#include "l1_env.h"
#ifdef JOB_STATE
#define EV_GHOST_CLAUSE (G_HES == self->hold_exit_status && (g_w >= H_CAPU || G_UBYTE == UBUFP[g_w]) && G_EV.wr_ok == E.wr_ok && G_EV.h_ret == E.h_ret && G_EV.reent_trig == E.reent_trig && G_EV.rd_calls == E.rd_calls && G_EV.wr_calls == E.wr_calls && G_EV.h_calls == E.h_calls && G_EV.vw_calls == E.vw_calls && G_EV.vr_calls == E.vr_calls)
#else
#define EV_GHOST_CLAUSE 1
#endif
#if H_SHARED
#define SERVICE_EXTRA_ASSIGNS
#else
#define SERVICE_EXTRA_ASSIGNS , __CPROVER_object_whole(h_ubuf)
#endif
#include "service_contracts.h"
#include "leaf_contracts.h"
#include "models.h"
#include CAT_C

#include "l1_build.h"

void harness(void)
{
        h_build_descriptor();
        h_build_object();
        g_crlf = h_crlf;
        h_reset_logs();
#ifdef JOB_STATE
        E.in_event = 0;
        (void)cat_service(&h_obj);
#else
        E.in_event = 1;
        EL.held = (h_obj.mutex != NULL);
        (void)unsolicited_events_service(&h_obj);
#endif
        __CPROVER_assert(0, "CANARY end of harness reachable");
}
