/* Step-level (L1) proof scaffolding: bounded descriptor shape with nondeterministic contents,
 * environment model (user callbacks) with a ghost log, included BEFORE /repo/src/cat.c.
 *
 * Shape parameters (all -D): H_BUFSZ total size of desc->buf, H_SHARED (1: no separate event
 * buffer, halves of H_BUFSZ/2; 0: separate event buffer of H_UBUFSZ bytes), H_NC commands in the
 * pool, H_NV variables per command, H_DS maximal data_size, H_NL maximal name length.
 * Everything else (all scalars of the object, all flags, handler presence, byte contents) is
 * nondeterministic, constrained only by the invariant in contracts/inv.h. */
#ifndef L1_ENV_H
#define L1_ENV_H
#include <stdlib.h>
#include "spec.h"
#include "cat.h"

#ifndef H_BUFSZ
#define H_BUFSZ 16
#endif
#ifndef H_SHARED
#define H_SHARED 1
#endif
#ifndef H_UBUFSZ
#define H_UBUFSZ 6
#endif
#ifndef H_NC
#define H_NC 3
#endif
#ifndef H_NG
#define H_NG 2
#endif
#ifndef H_NV
#define H_NV 2
#endif
#ifndef H_DS
#define H_DS 4
#endif
#ifndef H_NL
#define H_NL 2
#endif
#define H_RING CAT_UNSOLICITED_CMD_BUFFER_SIZE
/* loop bound of predicates that scan either half */
#if !H_SHARED && (H_UBUFSZ + 1 > H_BUFSZ)
#define H_MAXBUF (H_UBUFSZ + 1)
#else
#define H_MAXBUF H_BUFSZ
#endif
#ifndef X_MAXTXT
#define X_MAXTXT H_BUFSZ   /* expected texts longer than the buffer are refused anyway */
#endif

#if H_SHARED
#define H_CAPA ((size_t)(H_BUFSZ >> 1))
#define H_CAPU ((size_t)(H_BUFSZ >> 1))
#define H_UBUF (&h_buf[H_BUFSZ >> 1])
#else
#define H_CAPA ((size_t)H_BUFSZ)
#define H_CAPU ((size_t)H_UBUFSZ)
#define H_UBUF (h_ubuf)
#endif

#ifdef NATIVE_REPLAY
#include "native_shim.h"
#else
size_t nondet_size(void);
unsigned char nondet_uchar(void);
char nondet_char(void);
int nondet_int(void);
_Bool nondet_bool(void);
#define NB() (nondet_bool() ? 1 : 0)
#endif

/* ---------------- descriptor shape ---------------- */
static struct cat_object h_obj;
static struct cat_descriptor h_desc;
static uint8_t h_buf[H_BUFSZ];
#if !H_SHARED
static uint8_t h_ubuf[H_UBUFSZ + 1]; /* +1 keeps the array non-empty for H_UBUFSZ == 0; the descriptor announces H_UBUFSZ */
#endif
static struct cat_command h_cmds[H_NC];
static struct cat_variable h_vars[H_NC][H_NV];
static uint8_t h_vdata[H_NC][H_NV][H_DS] __attribute__((aligned(4)));
static char h_names[H_NC][H_NL + 1];
static char h_descr[H_NC][H_NL + 1];
static char h_vnames[H_NC][H_NV][H_NL + 1];
static struct cat_command_group h_grp[H_NG];
static struct cat_command_group *h_grp_ptrs[H_NG];
static struct cat_io_interface h_io;
static struct cat_mutex_interface h_mutex;
static char h_crlf[3];

/* ---------------- ghost log of the environment ---------------- */
static struct cat_object g_old;      /* snapshot of the object at the call                                   */
static uint8_t g_oldvdata[H_NC][H_NV][H_DS]; /* snapshot of every variable's storage at the call */
static uint8_t g_oldbuf[H_BUFSZ];    /* snapshot of the working buffer(s) at the call                          */
#if !H_SHARED
static uint8_t g_oldubuf[H_UBUFSZ + 1];
#endif
/* all of it lives in one struct so that a single frame target covers the whole log */
static struct env_log {
        int rd_calls, rd_avail; char rd_ch;                         /* io->read  */
        int wr_calls, wr_ok; char wr_ch;                            /* io->write */
        int h_calls, h_kind, h_ret;                                 /* command handlers: 0 run 1 read 2 write 3 test */
        const struct cat_command *h_cmd; const uint8_t *h_data; size_t h_size, h_max, h_args; const size_t *h_sizep;
        _Bool h_nul_ok;                                             /* buffer handed to a read/test handler was NUL-terminated at *size */
        int vw_calls, vr_calls, v_ret; const struct cat_variable *v_var; size_t vw_size;
        _Bool cb_unlocked;                                          /* a callback ran while the configured mutex was not held */
        int reent_trig, reent_hold; cat_status reent_trig_ret;
        _Bool in_event;                                             /* handler calls of this step belong to the event machine */
} E;
/* mutex log and ghost lock automaton: separate struct, the event machine's frame does not include it */
static struct lock_log {
        int lock_calls, unlock_calls, lock_ret, unlock_ret;
        _Bool held, lock_err;
        struct cat_object at_lock, at_unlock, in_cs;                /* object at the first lock() call / at the last unlock() call / at the start of the critical section */
        _Bool lock_seen, unlock_seen;
} EL;
#define e_rd_calls (E.rd_calls)
#define e_rd_avail (E.rd_avail)
#define e_rd_ch (E.rd_ch)
#define e_wr_calls (E.wr_calls)
#define e_wr_ok (E.wr_ok)
#define e_wr_ch (E.wr_ch)
#define e_h_calls (E.h_calls)
#define e_h_kind (E.h_kind)
#define e_h_ret (E.h_ret)
#define e_h_cmd (E.h_cmd)
#define e_h_data (E.h_data)
#define e_h_size (E.h_size)
#define e_h_max (E.h_max)
#define e_h_args (E.h_args)
#define e_h_sizep (E.h_sizep)
#define e_h_nul_ok (E.h_nul_ok)
#define e_vw_calls (E.vw_calls)
#define e_vr_calls (E.vr_calls)
#define e_v_ret (E.v_ret)
#define e_v_var (E.v_var)
#define e_vw_size (E.vw_size)
#define e_lock_calls (EL.lock_calls)
#define e_unlock_calls (EL.unlock_calls)
#define e_lock_ret (EL.lock_ret)
#define e_unlock_ret (EL.unlock_ret)
#define e_held (EL.held)
#define e_lock_err (EL.lock_err)
#define e_cb_unlocked (E.cb_unlocked)
#define e_reent_trig (E.reent_trig)
#define e_reent_hold (E.reent_hold)
#define e_reent_trig_ret (E.reent_trig_ret)
#define e_in_event (E.in_event)
#define g_at_lock (EL.at_lock)
#define g_at_unlock (EL.at_unlock)
#define g_lock_seen (EL.lock_seen)
#define g_unlock_seen (EL.unlock_seen)
#define E_KIND_RUN 0
#define E_KIND_READ 1
#define E_KIND_WRITE 2
#define E_KIND_TEST 3

static void e_note_callback(void)
{
        if (h_obj.mutex != NULL && !e_held)
                e_cb_unlocked = 1;
}

static char g_typed[H_NL + 2];
static char p_upper(char ch);
static _Bool p_name_char(char ch);
static int e_io_read(char *ch)
{
        e_note_callback();
        e_rd_calls++;
        char c = nondet_char();
        *ch = c;                     /* on refusal the callee may still scribble on *ch */
        int r = nondet_int();
        e_rd_avail = (r != 0);
        e_rd_ch = c;
        /* ghost: a name character accepted while the name is being typed extends the typed text */
        if (r != 0 && h_obj.state == CAT_STATE_PARSE_COMMAND_CHAR && h_obj.length <= H_NL && p_name_char(p_upper(c)))
                g_typed[h_obj.length] = p_upper(c);
        return r;
}

static int e_io_write(char ch)
{
        e_note_callback();
        e_wr_calls++;
        e_wr_ch = ch;
        int r = nondet_int();
        e_wr_ok = (r == 1);
        return r;
}

/* re-entrant API use from inside a callback (tests/test_hold_state.c does both); only without a
 * mutex: with a non-recursive mutex such a call would self-deadlock in any real program */
static void e_reenter(void)
{
        if (h_obj.mutex == NULL) {
                if (NB()) {
                        size_t i = nondet_size();
                        __CPROVER_assume(i < H_NC);
                        e_reent_trig++;
                        e_reent_trig_ret = cat_trigger_unsolicited_event(&h_obj, &h_cmds[i], NB() ? CAT_CMD_TYPE_READ : CAT_CMD_TYPE_TEST);
                }
                if (NB()) {
                        e_reent_hold++;
                        (void)cat_hold_exit(&h_obj, NB() ? CAT_STATUS_OK : CAT_STATUS_ERROR);
                }
        }
}

static cat_return_state e_ret_code(void)
{
        int r = nondet_int();
        /* all nine codes and out-of-range values; an event handler does not return HOLD (DESIGN F7) */
        __CPROVER_assume(!(e_in_event && r == CAT_RETURN_STATE_HOLD));
        e_h_ret = r;
        return (cat_return_state)r;
}

static cat_return_state e_cmd_run(const struct cat_command *cmd)
{
        e_note_callback();
        e_h_calls++; e_h_kind = E_KIND_RUN; e_h_cmd = cmd;
        e_reenter();
        return e_ret_code();
}

static cat_return_state e_cmd_write(const struct cat_command *cmd, const uint8_t *data, const size_t data_size, const size_t args_num)
{
        e_note_callback();
        e_h_calls++; e_h_kind = E_KIND_WRITE; e_h_cmd = cmd; e_h_data = data; e_h_size = data_size; e_h_args = args_num;
        e_h_nul_ok = (data[data_size] == 0);
        e_reenter();
        return e_ret_code();
}

/* read/test handlers may rewrite the response buffer within max_data_size, leave it NUL-terminated,
 * and set *data_size to anything */
static cat_return_state e_cmd_rt(int kind, const struct cat_command *cmd, uint8_t *data, size_t *data_size, const size_t max_data_size)
{
        e_note_callback();
        e_h_calls++; e_h_kind = kind; e_h_cmd = cmd; e_h_data = data; e_h_sizep = data_size; e_h_size = *data_size; e_h_max = max_data_size;
        e_h_nul_ok = (*data_size < max_data_size) && (data[*data_size] == 0);
        if (NB() && max_data_size > 0) {
                size_t i;
                for (i = 0; i < max_data_size && i < H_BUFSZ; i++)
                        data[i] = nondet_uchar();
                size_t z = nondet_size();
                __CPROVER_assume(z < max_data_size);
                data[z] = 0;
                *data_size = nondet_size();
        }
        e_reenter();
        return e_ret_code();
}

static cat_return_state e_cmd_read(const struct cat_command *cmd, uint8_t *data, size_t *data_size, const size_t max_data_size)
{
        return e_cmd_rt(E_KIND_READ, cmd, data, data_size, max_data_size);
}

static cat_return_state e_cmd_test(const struct cat_command *cmd, uint8_t *data, size_t *data_size, const size_t max_data_size)
{
        return e_cmd_rt(E_KIND_TEST, cmd, data, data_size, max_data_size);
}

static int e_var_write(const struct cat_variable *var, const size_t write_size)
{
        e_note_callback();
        e_vw_calls++; e_v_var = var; e_vw_size = write_size;
        e_v_ret = nondet_int();
        return e_v_ret;
}

static int e_var_read(const struct cat_variable *var)
{
        e_note_callback();
        e_vr_calls++; e_v_var = var;
        e_v_ret = nondet_int();
        return e_v_ret;
}

/* mutex with the ghost lock automaton (C16); with H_LOCKRULE the successful lock/unlock also havoc
 * the fields another thread may touch under the lock, subject to their invariant (C17) */
static void h_havoc_shared(void);
static int e_lock(void)
{
        e_lock_calls++;
        if (e_held) e_lock_err = 1;           /* nested acquisition */
        if (!g_lock_seen) { g_at_lock = h_obj; g_lock_seen = 1; }
        e_lock_ret = nondet_int();
        if (e_lock_ret == 0) {
                e_held = 1;
#ifdef H_LOCKRULE
                h_havoc_shared();
#endif
                EL.in_cs = h_obj;
        }
        return e_lock_ret;
}

static int e_unlock(void)
{
        e_unlock_calls++;
        if (!e_held) e_lock_err = 1;          /* release without holding */
        e_held = 0;
        g_at_unlock = h_obj; g_unlock_seen = 1;
        e_unlock_ret = nondet_int();
#ifdef H_LOCKRULE
        h_havoc_shared();
#endif
        return e_unlock_ret;
}

#endif
