/* Construction of the bounded descriptor shape and of an arbitrary object (included AFTER cat.c). */
#ifndef L1_BUILD_H
#define L1_BUILD_H
/* Every pointer of the shape is a function of small integer choices kept in h_ix: the proof harness draws the
 * choices nondeterministically, the native replay injects the counterexample's choices; h_apply_choices() then
 * builds the same pointers in both. */
static struct h_choices {
        _Bool has_descr[H_NC], has_write[H_NC], has_read[H_NC], has_run[H_NC], has_test[H_NC], has_var[H_NC];
        _Bool v_has_name[H_NC][H_NV], v_has_w[H_NC][H_NV], v_has_r[H_NC][H_NV];
        size_t ng, n0, n1;
        _Bool mutex_on;
        size_t at_cmd, at_var_i, at_var_j, un_cmd, un_var_i, un_var_j, ring_cmd[H_RING];
        int at_wb, un_wb;
} h_ix;

static const struct cat_command *h_cmd_at(size_t i) { return (i < H_NC) ? &h_cmds[i] : NULL; }
static const struct cat_variable *h_var_at(size_t i, size_t j) { return (i < H_NC && j < H_NV) ? &h_vars[i][j] : NULL; }
static const char *h_wb_at(int k, const char *half) { return (k == 0) ? &h_crlf[0] : (k == 1) ? &h_crlf[1] : (k == 2) ? half : NULL; }

static void h_apply_choices(void)
{
        size_t i, j;
        h_crlf[0] = '\r'; h_crlf[1] = '\n'; h_crlf[2] = 0;
        for (i = 0; i < H_NC; i++) {
                struct cat_command *c = &h_cmds[i];
                h_names[i][H_NL] = 0; h_descr[i][H_NL] = 0;
                c->name = h_names[i];
                c->description = h_ix.has_descr[i] ? h_descr[i] : NULL;
                c->write = h_ix.has_write[i] ? e_cmd_write : NULL;
                c->read = h_ix.has_read[i] ? e_cmd_read : NULL;
                c->run = h_ix.has_run[i] ? e_cmd_run : NULL;
                c->test = h_ix.has_test[i] ? e_cmd_test : NULL;
                c->var = h_ix.has_var[i] ? h_vars[i] : NULL;
                for (j = 0; j < H_NV; j++) {
                        struct cat_variable *v = &h_vars[i][j];
                        h_vnames[i][j][H_NL] = 0;
                        v->name = h_ix.v_has_name[i][j] ? h_vnames[i][j] : NULL;
                        v->data = h_vdata[i][j];
                        v->write = h_ix.v_has_w[i][j] ? e_var_write : NULL;
                        v->read = h_ix.v_has_r[i][j] ? e_var_read : NULL;
                }
        }
        /* groups partition the first g_ncmds pool commands, in registration order */
        h_grp[0].name = NULL; h_grp[0].cmd = &h_cmds[0]; h_grp[0].cmd_num = h_ix.n0;
        h_grp[1].name = NULL; h_grp[1].cmd = &h_cmds[h_ix.n0 < H_NC ? h_ix.n0 : 0]; h_grp[1].cmd_num = h_ix.n1;
        h_grp_ptrs[0] = &h_grp[0]; h_grp_ptrs[1] = &h_grp[1];
        h_desc.cmd_group = h_grp_ptrs; h_desc.cmd_group_num = h_ix.ng;
        g_ncmds = h_ix.n0 + h_ix.n1;
        h_desc.buf = h_buf; h_desc.buf_size = H_BUFSZ;
#if H_SHARED
        h_desc.unsolicited_buf = NULL;
#else
        h_desc.unsolicited_buf = h_ubuf; h_desc.unsolicited_buf_size = H_UBUFSZ;
#endif
        h_io.read = e_io_read; h_io.write = e_io_write;
        h_mutex.lock = e_lock; h_mutex.unlock = e_unlock;
        h_obj.desc = &h_desc; h_obj.io = &h_io; h_obj.mutex = h_ix.mutex_on ? &h_mutex : NULL;
        h_obj.commands_num = g_ncmds;
        h_obj.cmd = h_cmd_at(h_ix.at_cmd); h_obj.var = h_var_at(h_ix.at_var_i, h_ix.at_var_j);
        h_obj.write_buf = h_wb_at(h_ix.at_wb, (const char *)h_buf);
        h_obj.unsolicited_fsm.cmd = h_cmd_at(h_ix.un_cmd); h_obj.unsolicited_fsm.var = h_var_at(h_ix.un_var_i, h_ix.un_var_j);
        h_obj.unsolicited_fsm.write_buf = h_wb_at(h_ix.un_wb, (const char *)H_UBUF);
        for (j = 0; j < H_RING; j++)
                h_obj.unsolicited_fsm.unsolicited_cmd_buffer[j].cmd = h_cmd_at(h_ix.ring_cmd[j]);
}

static const struct cat_command *h_pick_cmd(void)
{
        size_t i = nondet_size();
        if (i >= H_NC) return NULL;
        return &h_cmds[i];
}

#ifndef NATIVE_REPLAY
static void h_fill_str(char *arr)
{
        size_t k;
        for (k = 0; k < H_NL; k++)
                arr[k] = nondet_char();
        arr[H_NL] = 0;
}

/* descriptor contents and every choice nondeterministic */
static void h_build_descriptor(void)
{
        size_t i, j;
        for (i = 0; i < H_BUFSZ; i++)
                h_buf[i] = nondet_uchar();
#if !H_SHARED
        for (i = 0; i < H_UBUFSZ + 1; i++)
                h_ubuf[i] = nondet_uchar();
#endif
        for (i = 0; i < H_NC; i++) {
                struct cat_command *c = &h_cmds[i];
                h_fill_str(h_names[i]); h_fill_str(h_descr[i]);
                __CPROVER_assume(h_names[i][0] != 0);   /* domain: command names are not empty */
                h_ix.has_descr[i] = NB(); h_ix.has_write[i] = NB(); h_ix.has_read[i] = NB(); h_ix.has_run[i] = NB(); h_ix.has_test[i] = NB(); h_ix.has_var[i] = NB();
                c->var_num = nondet_size();
                __CPROVER_assume(c->var_num <= H_NV);
                c->need_all_vars = NB(); c->only_test = NB(); c->disable = NB(); c->implicit_write = NB();
                /* precondition asserted by cat_init: implicit-write commands have no read/run/test handler */
                __CPROVER_assume(!c->implicit_write || (!h_ix.has_read[i] && !h_ix.has_run[i] && !h_ix.has_test[i]));
                for (j = 0; j < H_NV; j++) {
                        struct cat_variable *v = &h_vars[i][j];
                        size_t k;
                        int t = nondet_int(), a = nondet_int();
                        __CPROVER_assume(t >= CAT_VAR_INT_DEC && t <= CAT_VAR_BUF_STRING && a >= CAT_VAR_ACCESS_READ_WRITE && a <= CAT_VAR_ACCESS_WRITE_ONLY);
                        h_fill_str(h_vnames[i][j]);
                        h_ix.v_has_name[i][j] = NB(); h_ix.v_has_w[i][j] = NB(); h_ix.v_has_r[i][j] = NB();
                        v->type = (cat_var_type)t;
                        v->access = (cat_var_access)a;
                        v->data_size = nondet_size();
                        __CPROVER_assume(v->data_size >= 1 && v->data_size <= H_DS);
                        for (k = 0; k < H_DS; k++)
                                h_vdata[i][j][k] = nondet_uchar();
                }
        }
        h_ix.ng = NB() ? 1 : 2; h_ix.n0 = nondet_size(); h_ix.n1 = nondet_size();
        __CPROVER_assume(h_ix.n0 >= 1 && h_ix.n0 <= H_NC);
        if (h_ix.ng == 1) { h_ix.n1 = 0; } else { __CPROVER_assume(h_ix.n1 >= 1 && h_ix.n1 <= H_NC && h_ix.n0 + h_ix.n1 <= H_NC); }
        h_grp[0].disable = NB(); h_grp[1].disable = NB();
#if H_SHARED
        h_desc.unsolicited_buf_size = nondet_size();
#endif
}

/* every field of the object nondeterministic; pointers chosen among their legal targets */
static void h_build_object(void)
{
        size_t j;
        h_ix.mutex_on = NB();
        h_obj.index = nondet_size(); h_obj.partial_cntr = nondet_size(); h_obj.length = nondet_size(); h_obj.position = nondet_size();
        h_obj.write_size = nondet_size();
        h_ix.at_cmd = nondet_size(); h_ix.at_var_i = nondet_size(); h_ix.at_var_j = nondet_size(); h_obj.cmd_type = (cat_cmd_type)nondet_int();
        h_obj.current_char = nondet_char(); h_obj.cr_flag = NB(); h_obj.hold_state_flag = NB(); h_obj.hold_exit_status = nondet_int();
        h_ix.at_wb = nondet_int(); h_obj.write_state = nondet_int(); h_obj.write_state_after = (cat_state)nondet_int();
        h_obj.implicit_write_flag = NB();
        h_obj.unsolicited_fsm.index = nondet_size(); h_obj.unsolicited_fsm.position = nondet_size();
        h_ix.un_cmd = nondet_size(); h_ix.un_var_i = nondet_size(); h_ix.un_var_j = nondet_size(); h_obj.unsolicited_fsm.cmd_type = (cat_cmd_type)nondet_int();
        h_ix.un_wb = nondet_int(); h_obj.unsolicited_fsm.write_state = nondet_int();
        h_obj.unsolicited_fsm.write_state_after = (cat_unsolicited_state)nondet_int();
        for (j = 0; j < H_RING; j++) {
                h_ix.ring_cmd[j] = nondet_size();
                h_obj.unsolicited_fsm.unsolicited_cmd_buffer[j].type = (cat_cmd_type)nondet_int();
        }
        h_obj.unsolicited_fsm.unsolicited_cmd_buffer_head = nondet_size(); h_obj.unsolicited_fsm.unsolicited_cmd_buffer_tail = nondet_size();
        h_obj.unsolicited_fsm.unsolicited_cmd_buffer_items_count = nondet_size();
#ifdef JOB_STATE
        h_obj.state = JOB_STATE;
        h_obj.unsolicited_fsm.state = (cat_unsolicited_state)nondet_int();
#elif defined(JOB_USTATE)
        h_obj.state = (cat_state)nondet_int();
        h_obj.unsolicited_fsm.state = JOB_USTATE;
#else
        h_obj.state = (cat_state)nondet_int();
        h_obj.unsolicited_fsm.state = (cat_unsolicited_state)nondet_int();
#endif
        h_apply_choices();
}
#endif

static void h_reset_logs(void)
{
        size_t i;
        struct env_log z = {0};
        struct lock_log zl = {0};
        E = z; G_EV = z; EL = zl;
        g_old = h_obj;
        for (i = 0; i < H_BUFSZ; i++) g_oldbuf[i] = h_buf[i];
        { size_t a, b, c; for (a = 0; a < H_NC; a++) for (b = 0; b < H_NV; b++) for (c = 0; c < H_DS; c++) g_oldvdata[a][b][c] = h_vdata[a][b][c]; }
#if !H_SHARED
        for (i = 0; i < H_UBUFSZ + 1; i++) g_oldubuf[i] = h_ubuf[i];
#endif
        g_sat = 0; g_ndig = 0; g_size = 0; g_nesc = 0;
        g_k = nondet_size(); g_j = nondet_size(); g_w = nondet_size();
        { size_t t; for (t = 0; t < H_NL + 2; t++) g_typed[t] = nondet_char(); }
        g_len = h_obj.length;
        if (h_obj.var != NULL && g_j < H_DS) g_oldbyte = ((const uint8_t *)h_obj.var->data)[g_j];
}


/* what another thread may have done to the lock-protected fields while the lock was free (C17) */
static void h_havoc_shared(void)
{
        size_t j;
        for (j = 0; j < H_RING; j++) {
                h_obj.unsolicited_fsm.unsolicited_cmd_buffer[j].cmd = h_pick_cmd();
                h_obj.unsolicited_fsm.unsolicited_cmd_buffer[j].type = (cat_cmd_type)nondet_int();
        }
        h_obj.unsolicited_fsm.unsolicited_cmd_buffer_head = nondet_size(); h_obj.unsolicited_fsm.unsolicited_cmd_buffer_tail = nondet_size();
        h_obj.unsolicited_fsm.unsolicited_cmd_buffer_items_count = nondet_size();
        __CPROVER_assume(inv_ring(&h_obj));
        if (h_obj.hold_state_flag)
                h_obj.hold_exit_status = nondet_int();
}
#endif
