/* Shared scaffolding of the leaf (L0) harnesses: a parser object whose command half is an object
 * of exactly its (symbolic) capacity, so that every out-of-bounds access is caught. */
#ifndef L0_COMMON_H
#define L0_COMMON_H
#include <stdlib.h>

size_t nondet_size(void);
unsigned char nondet_uchar(void);
int nondet_int(void);
_Bool nondet_bool(void);

static struct cat_object h_obj;
static struct cat_descriptor h_desc;

#ifndef MAX_CAP
#define MAX_CAP 4096
#endif
#ifndef MAX_DS
#define MAX_DS 64
#endif

/* command half of symbolic capacity cap (6..MAX_CAP), separate or shared layout */
static size_t h_setup_buffers(void)
{
        size_t cap = nondet_size();
        __CPROVER_assume(cap >= 6 && cap <= MAX_CAP);
#ifdef FIX_SHARED
        if (!FIX_SHARED) {   /* one job per layout */
#else
        if (nondet_bool()) {
#endif
                /* separate event buffer */
                size_t ucap = nondet_size();
#ifdef FIX_SHARED
                __CPROVER_assume(ucap >= 6 && ucap <= MAX_CAP);   /* the job that formats into the separate event buffer */
#else
                __CPROVER_assume(ucap <= MAX_CAP);
#endif
                h_desc.buf = malloc(cap);
                h_desc.buf_size = cap;
#if defined(FIX_SHARED) && !FIX_SHARED
                /* (two heap objects of symbolic size exhaust the solver's memory in CBMC 6.11: the event buffer is a fixed
                 * object here, its announced capacity stays symbolic and the frame check confines writes to it) */
                { static uint8_t ubuf_fixed[MAX_CAP + 1]; h_desc.unsolicited_buf = ubuf_fixed; }
#else
                h_desc.unsolicited_buf = malloc(ucap + 1); /* +1: malloc(0) may be NULL */
#endif
                h_desc.unsolicited_buf_size = ucap;
                __CPROVER_assume(h_desc.unsolicited_buf != NULL);   /* a failed allocation would silently turn this into the shared layout */
        } else {
                /* shared buffer split in two halves; odd sizes leave one spare byte */
                size_t extra = nondet_bool() ? 1 : 0;
                h_desc.buf = malloc(2 * cap + extra);
                h_desc.buf_size = 2 * cap + extra;
                h_desc.unsolicited_buf = NULL;
                h_desc.unsolicited_buf_size = 0;
        }
        __CPROVER_assume(h_desc.buf != NULL);
        h_obj.desc = &h_desc;
        return cap;
}
/* the current variable: storage object of exactly data_size bytes (so any access past it is caught) */
static struct cat_variable h_var;
static void h_setup_var(cat_var_type type)
{
        size_t ds = nondet_size();
        __CPROVER_assume(ds >= 1 && ds <= MAX_DS);
        h_var.type = type;
        h_var.data = malloc(ds);
        __CPROVER_assume(h_var.data != NULL);
        h_var.data_size = ds;
        int acc = nondet_int();
        __CPROVER_assume(acc >= 0 && acc <= 2);
        h_var.access = (cat_var_access)acc;
        h_obj.var = &h_var;
        g_j = nondet_size();
        if (g_j < ds) g_oldbyte = ((uint8_t *)h_var.data)[g_j];
}
unsigned int nondet_uint(void);
/* variable attached to the machine chosen by fsm */
static void h_setup_var_f(cat_var_type type, cat_fsm_type fsm)
{
        h_setup_var(type);
        h_obj.var = NULL;
        if (fsm == CAT_FSM_TYPE_ATCMD) h_obj.var = &h_var; else h_obj.unsolicited_fsm.var = &h_var;
}
#endif
