/* Discharges the assumption made inside get_new_line_chars in dfcc proofs (crlf == harness copy of
 * "\r\n"): with plain CBMC and the real static initialiser the function returns "\r\n" when a CR was
 * seen and "\n" otherwise, and both are suffixes of one 3-byte string. */
#include "spec.h"
#include "cat.h"
#include CAT_C
_Bool nondet_bool(void);
void harness(void)
{
        struct cat_object o;
        const char *a, *b;
        o.cr_flag = 1; a = get_new_line_chars(&o);
        o.cr_flag = 0; b = get_new_line_chars(&o);
        __CPROVER_assert(a[0] == '\r' && a[1] == '\n' && a[2] == 0, "[C11,C20:newline-crlf] newline after a CR in the line is CR LF");
        __CPROVER_assert(b[0] == '\n' && b[1] == 0, "[C11,C20:newline-lf] newline without CR is LF");
        __CPROVER_assert(b == a + 1, "[C11,C20:newline-one-string] both newlines are suffixes of the same string (what the proof harness assumes)");
        __CPROVER_assert(0, "CANARY end of harness reachable");
}
