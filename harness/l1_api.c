/* One call of a public API function (other than cat_service / cat_init) on an arbitrary object
 * satisfying Inv.  -DAPI_CALL=<call expression>, the enforced contract is chosen by the driver. */
#include "l1_env.h"
#define EV_GHOST_CLAUSE 1
#if H_SHARED
#define SERVICE_EXTRA_ASSIGNS
#else
#define SERVICE_EXTRA_ASSIGNS , __CPROVER_object_whole(h_ubuf)
#endif
#include "service_contracts.h"
#include "api_contracts.h"
#include "leaf_contracts.h"
#include "models.h"
#include CAT_C
#include "l1_build.h"

/* arguments of the call are named ghosts (so that a counterexample can be replayed natively) */
static size_t g_api_cmd, g_api_name; static int g_api_int;
#define A_CMD  h_cmd_at(g_api_cmd)
#define A_INT  g_api_int
#define A_NAME h_names[g_api_name % H_NC]

void harness(void)
{
        h_build_descriptor();
        h_build_object();
        h_obj.state = (cat_state)nondet_int();
        h_obj.unsolicited_fsm.state = (cat_unsolicited_state)nondet_int();
        g_crlf = h_crlf;
        h_reset_logs();
        g_api_cmd = nondet_size(); g_api_name = nondet_size(); g_api_int = nondet_int();
        (void)API_CALL;
        __CPROVER_assert(0, "CANARY end of harness reachable");
}
