/* One call of a public API function (other than cat_service / cat_init) on an arbitrary object
 * satisfying Inv.  -DAPI_CALL=<call expression>, the enforced contract is chosen by the driver. */
#include "l1_env.h"
#define EV_GHOST_CLAUSE 1
#if H_SHARED
#define SERVICE_EXTRA_ASSIGNS
#else
#define SERVICE_EXTRA_ASSIGNS , __CPROVER_object_whole(h_ubuf)
#endif
#include "service_contracts.h"
#include "api_contracts.h"
#include "leaf_contracts.h"
#include "models.h"
#include CAT_C
#include "l1_build.h"

void harness(void)
{
        h_build_descriptor();
        h_build_object();
        h_obj.state = (cat_state)nondet_int();
        h_obj.unsolicited_fsm.state = (cat_unsolicited_state)nondet_int();
        g_crlf = h_crlf;
        h_reset_logs();
        (void)API_CALL;
        __CPROVER_assert(0, "CANARY end of harness reachable");
}
