/* Small leaf functions: character classes, lane algebra (2 bits per command, any table size),
 * one step of the resolution scan with its callees replaced by contracts.  -DSMALL_<fn> picks the call. */
#include <stdlib.h>
#include "spec.h"
#include "cat.h"
#define OLD(x) __CPROVER_old(x)
#define RET    __CPROVER_return_value
size_t nondet_size(void); unsigned char nondet_uchar(void); char nondet_char(void); int nondet_int(void); _Bool nondet_bool(void);

static _Bool g_dis;                          /* ghost: what is_command_disable answered */
static uint8_t g_lane;                       /* ghost: what get_cmd_state answered */
static const struct cat_command *g_cmdp;     /* ghost: what get_command_by_index answered */
static size_t g_wl;                          /* witness lane */
static uint8_t g_wl_old;                     /* its value before the call */
static struct cat_object s_obj; static struct cat_descriptor s_desc; static struct cat_command s_cmd;
#define S_CAP   (s_desc.unsolicited_buf != NULL ? s_desc.buf_size : (s_desc.buf_size >> 1))
#define S_LANE(i) ((uint8_t)((s_desc.buf[(i) >> 2] >> (((i) & 3) << 1)) & 3))
#define S_ALPHA(c) (((c) >= 'A' && (c) <= 'Z') || ((c) >= '0' && (c) <= '9') || (c) == '+' || (c) == '#' || (c) == '$' || (c) == '@' || (c) == '_' || (c) == '%' || (c) == '&')

static char to_upper(char ch)
__CPROVER_assigns()
/* [C02:upper-exact]      */ __CPROVER_ensures(RET == ((ch >= 'a' && ch <= 'z') ? (char)(ch - 32) : ch))
;
static int is_valid_cmd_name_char(const char ch)
__CPROVER_assigns()
/* [C02:alphabet-exact]   */ __CPROVER_ensures((RET != 0) == S_ALPHA(ch))
;
static int is_valid_dec_char(const char ch)
__CPROVER_assigns()
/* [C04:dec-class]        */ __CPROVER_ensures((RET != 0) == (ch >= '0' && ch <= '9'))
;
static int is_valid_hex_char(const char ch)
__CPROVER_assigns()
/* [C04,C05:hex-class]    */ __CPROVER_ensures((RET != 0) == ((ch >= '0' && ch <= '9') || (ch >= 'A' && ch <= 'F')))
;
static uint8_t convert_hex_char_to_value(const char ch)
__CPROVER_requires((ch >= '0' && ch <= '9') || (ch >= 'A' && ch <= 'F'))
__CPROVER_assigns()
/* [C04,C05:hex-value]    */ __CPROVER_ensures(RET == (ch <= '9' ? ch - '0' : ch - 'A' + 10))
;
static bool is_command_disable(struct cat_object *self, size_t index)
__CPROVER_requires(index < self->commands_num)
__CPROVER_assigns(g_dis)
__CPROVER_ensures(RET == g_dis)
;
static uint8_t get_cmd_state(struct cat_object *self, size_t i)
__CPROVER_requires(self == &s_obj && i < self->commands_num && self->commands_num <= 4 * S_CAP)
__CPROVER_assigns(g_dis, g_lane)
#ifndef SMALL_search_command
/* [C02,C09:lane-read]    */ __CPROVER_ensures(RET == (g_dis ? 0 : S_LANE(i)))
#else
__CPROVER_ensures(RET == g_lane && g_lane <= 3)
#endif
;
static void set_cmd_state(struct cat_object *self, size_t i, uint8_t state)
__CPROVER_requires(self == &s_obj && i < 4 * S_CAP && g_wl < 4 * S_CAP && g_wl_old == S_LANE(g_wl))
__CPROVER_assigns(self->desc->buf[i >> 2])
/* [C02:lane-write]       */ __CPROVER_ensures(S_LANE(i) == (state & 3))
/* [C02:lane-others]      */ __CPROVER_ensures(g_wl != i ==> S_LANE(g_wl) == g_wl_old)
;
static struct cat_command const* get_command_by_index(struct cat_object *self, size_t index)
__CPROVER_requires(index < self->commands_num)
__CPROVER_assigns(g_cmdp)
__CPROVER_ensures(RET == g_cmdp && g_cmdp == &s_cmd)
;
/* one step of the scan over a table of ANY size: counters are mathematical (no wrap), exits as the statement says */
static cat_status search_command(struct cat_object *self)
__CPROVER_requires(self == &s_obj && self->index < self->commands_num && self->commands_num <= 4 * S_CAP && self->partial_cntr < (size_t)-1 && (self->cmd == NULL || self->cmd == &s_cmd) && (self->cmd == NULL) == (self->partial_cntr == 0))
__CPROVER_assigns(self->state, self->cmd, self->partial_cntr, self->index, g_dis, g_lane, g_cmdp)
#define LAST  (OLD(self->index) + 1 == self->commands_num)
#define NL    (self->current_char == '\n')
#define NONE_STATE (NL ? CAT_STATE_COMMAND_NOT_FOUND : CAT_STATE_ERROR)
/* [C02:scan-full]        */ __CPROVER_ensures(g_lane == 2 ==> (self->state == CAT_STATE_COMMAND_FOUND && self->cmd == &s_cmd))
/* [C02:scan-partial]     */ __CPROVER_ensures((g_lane == 1 && !(OLD(self->partial_cntr) >= 1 && LAST)) ==> (self->partial_cntr == OLD(self->partial_cntr) + 1 && self->cmd == &s_cmd))
/* [C02:scan-nomatch]     */ __CPROVER_ensures((g_lane == 0 || g_lane == 3) ==> (self->partial_cntr == OLD(self->partial_cntr) && self->cmd == OLD(self->cmd)))
/* [C02:scan-continue]    */ __CPROVER_ensures((g_lane != 2 && !LAST) ==> (self->state == OLD(self->state) && self->index == OLD(self->index) + 1))
/* [C02:scan-end-unique]  */ __CPROVER_ensures((g_lane != 2 && LAST && OLD(self->partial_cntr) + (g_lane == 1 ? 1 : 0) == 1) ==> self->state == CAT_STATE_COMMAND_FOUND)
/* [C01,C02:scan-end-none]*/ __CPROVER_ensures((g_lane != 2 && LAST && OLD(self->partial_cntr) + (g_lane == 1 ? 1 : 0) != 1) ==> self->state == NONE_STATE)
;
#include CAT_C

void harness(void)
{
        size_t cap = nondet_size();
        __CPROVER_assume(cap >= 6 && cap <= 4096);
        if (nondet_bool()) { s_desc.buf = malloc(cap); s_desc.buf_size = cap; s_desc.unsolicited_buf = malloc(1); }
        else { s_desc.buf = malloc(2 * cap); s_desc.buf_size = 2 * cap; s_desc.unsolicited_buf = NULL; }
        __CPROVER_assume(s_desc.buf != NULL);
        s_obj.desc = &s_desc;
        s_obj.commands_num = nondet_size(); s_obj.index = nondet_size(); s_obj.partial_cntr = nondet_size();
        s_obj.cmd = nondet_bool() ? &s_cmd : NULL; s_obj.current_char = nondet_char(); s_obj.state = CAT_STATE_SEARCH_COMMAND;
        g_wl = nondet_size();
        if (g_wl < 4 * cap) g_wl_old = S_LANE(g_wl);
#if defined(SMALL_to_upper)
        (void)to_upper(nondet_char());
#elif defined(SMALL_is_valid_cmd_name_char)
        (void)is_valid_cmd_name_char(nondet_char());
#elif defined(SMALL_is_valid_dec_char)
        (void)is_valid_dec_char(nondet_char());
#elif defined(SMALL_is_valid_hex_char)
        (void)is_valid_hex_char(nondet_char());
#elif defined(SMALL_convert_hex_char_to_value)
        (void)convert_hex_char_to_value(nondet_char());
#elif defined(SMALL_get_cmd_state)
        (void)get_cmd_state(&s_obj, nondet_size());
#elif defined(SMALL_set_cmd_state)
        set_cmd_state(&s_obj, nondet_size(), nondet_uchar());
#elif defined(SMALL_search_command)
        (void)search_command(&s_obj);
#endif
        __CPROVER_assert(0, "CANARY end of harness reachable");
}
