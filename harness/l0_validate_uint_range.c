#include "leaf_contracts.h"
#include CAT_C
#include "l0_common.h"
uint64_t nondet_u64(void);
void harness(void)
{
        h_obj.desc = &h_desc;
        h_setup_var(CAT_VAR_UINT_DEC);
        validate_uint_range(&h_obj, nondet_u64());
        __CPROVER_assert(0, "CANARY end of harness reachable");
}
