"""Native replay of counterexamples against the real library (compiled from /repo with ASan+UBSan).

try_replay(doc)   : called by the driver for every failed obligation; returns a verdict dict
replay_file(path) : `check <id> --replay <path>`: re-runs the native replay recorded in a replay file
"""
import os, json, subprocess, tempfile, shutil


def _run_native(sources, defines, args, repo, verif, timeout=120):
    d = tempfile.mkdtemp(prefix='cat_replay.', dir='/var/tmp')
    try:
        exe = os.path.join(d, 'replay')
        cmd = ['clang', '-g', '-O1', '-fsanitize=address,undefined', '-fno-sanitize-recover=undefined', '-w',
               '-I' + os.path.join(repo, 'src'), '-I' + os.path.join(verif, 'replay'), '-I' + os.path.join(verif, 'contracts'), '-I' + os.path.join(verif, 'harness')]
        cmd += ['-D' + x for x in defines] + sources + ['-o', exe]
        p = subprocess.run(cmd, stdout=subprocess.PIPE, stderr=subprocess.STDOUT, timeout=timeout)
        if p.returncode != 0:
            return {'ran': False, 'reproduced': False, 'output': 'native build failed: ' + p.stdout.decode('utf-8', 'replace')[-800:]}
        p = subprocess.run([exe] + args, stdout=subprocess.PIPE, stderr=subprocess.STDOUT, timeout=timeout)
        out = p.stdout.decode('utf-8', 'replace')
        return {'ran': True, 'reproduced': p.returncode != 0, 'exit': p.returncode, 'output': out[-3000:]}
    except subprocess.TimeoutExpired:
        return {'ran': False, 'reproduced': False, 'output': 'native replay timed out'}
    finally:
        shutil.rmtree(d, ignore_errors=True)


def try_replay(doc, repo, verif):
    rp = doc.get('replay')
    if not rp:
        return {'ran': False, 'reproduced': False, 'output': 'no native replay recipe registered for this obligation class'}
    kind = rp.get('kind')
    if kind == 'program':
        # a fixed native scenario program (written from the property text) that sweeps the input class of the obligation
        srcs = [os.path.join(verif, 'replay', rp['program']), os.path.join(repo, 'src', 'cat.c')]
        v = _run_native(srcs, rp.get('defines', []), [], repo, verif)
        v['recipe'] = 'native sweep %s over the obligation\'s input class' % rp['program']
        return v
    if kind == 'tape':
        # the proof harness itself, compiled natively, fed with the verifier's counterexample values
        tape = doc.get('counterexample', {})
        tf = tempfile.NamedTemporaryFile('w', suffix='.json', delete=False, dir='/var/tmp')
        json.dump(tape, tf)
        tf.close()
        try:
            srcs = [os.path.join(verif, 'harness', doc['harness'])]
            v = _run_native(srcs, ['NATIVE_REPLAY', 'CAT_C="%s"' % os.path.join(repo, 'src', 'cat.c')] + list(doc.get('job_defines', [])), [tf.name], repo, verif)
        finally:
            os.unlink(tf.name)
        v['recipe'] = 'proof harness compiled natively, nondeterministic choices taken from the counterexample'
        return v
    return {'ran': False, 'reproduced': False, 'output': 'unknown replay kind %r' % kind}


def replay_file(path, repo, verif):
    with open(path) as f:
        doc = json.load(f)
    print('obligation: %s (%s) clause=%s' % (doc.get('obligation'), doc.get('function'), doc.get('clause')))
    print('verifier  : %s' % doc.get('verifier_output'))
    v = try_replay(doc, repo, verif)
    print(v.get('output', ''))
    if v.get('reproduced'):
        print('REPRODUCED on the real code (%s)' % v.get('recipe', ''))
        return 1
    print('not reproduced natively (%s)' % v.get('recipe', 'no recipe'))
    return 0
