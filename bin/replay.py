"""Native replay of counterexamples against the real library (compiled from /repo with ASan+UBSan).

try_replay(doc)   : called by the driver for every failed obligation; returns a verdict dict
replay_file(path) : `check <id> --replay <path>`: re-runs the native replay recorded in a replay file
"""
import os, json, subprocess, tempfile, shutil


def _run_native(sources, defines, args, repo, verif, timeout=120):
    d = tempfile.mkdtemp(prefix='cat_replay.', dir='/var/tmp')
    try:
        exe = os.path.join(d, 'replay')
        cmd = ['clang', '-g', '-O1', '-fsanitize=address,undefined', '-fno-sanitize-recover=undefined', '-w',
               '-I' + os.path.join(repo, 'src'), '-I' + os.path.join(verif, 'replay'), '-I' + os.path.join(verif, 'contracts'), '-I' + os.path.join(verif, 'harness')]
        cmd += ['-D' + x for x in defines] + sources + ['-o', exe]
        p = subprocess.run(cmd, stdout=subprocess.PIPE, stderr=subprocess.STDOUT, timeout=timeout)
        if p.returncode != 0:
            return {'ran': False, 'reproduced': False, 'output': 'native build failed: ' + p.stdout.decode('utf-8', 'replace')[-800:]}
        p = subprocess.run([exe] + args, stdout=subprocess.PIPE, stderr=subprocess.STDOUT, timeout=timeout)
        out = p.stdout.decode('utf-8', 'replace')
        return {'ran': True, 'reproduced': p.returncode != 0, 'exit': p.returncode, 'output': out[-3000:]}
    except subprocess.TimeoutExpired:
        return {'ran': False, 'reproduced': False, 'output': 'native replay timed out'}
    finally:
        shutil.rmtree(d, ignore_errors=True)


def try_replay(doc, repo, verif):
    rp = doc.get('replay')
    if not rp:
        return {'ran': False, 'reproduced': False, 'output': 'no native replay recipe registered for this obligation class'}
    kind = rp.get('kind')
    if kind == 'program':
        # a fixed native scenario program (written from the property text) that sweeps the input class of the obligation
        srcs = [os.path.join(verif, 'replay', rp['program']), os.path.join(repo, 'src', 'cat.c')]
        v = _run_native(srcs, rp.get('defines', []), [], repo, verif)
        v['recipe'] = 'native sweep %s over the obligation\'s input class' % rp['program']
        return v
    if kind == 'tape':
        # the proof harness itself, compiled natively, fed with the verifier's counterexample values
        tape = doc.get('counterexample', {})
        tf = tempfile.NamedTemporaryFile('w', suffix='.json', delete=False, dir='/var/tmp')
        json.dump(tape, tf)
        tf.close()
        try:
            srcs = [os.path.join(verif, 'harness', doc['harness'])]
            v = _run_native(srcs, ['NATIVE_REPLAY', 'CAT_C="%s"' % os.path.join(repo, 'src', 'cat.c')] + list(doc.get('job_defines', [])), [tf.name], repo, verif)
        finally:
            os.unlink(tf.name)
        v['recipe'] = 'proof harness compiled natively, nondeterministic choices taken from the counterexample'
        return v
    if kind == 'r2':
        v = _r2(doc, repo, verif)
        if not v.get('reproduced') and rp.get('fallback_program'):
            v2 = try_replay(dict(doc, replay={'kind': 'program', 'program': rp['fallback_program'], 'defines': ['CAT_UNSOLICITED_CMD_BUFFER_SIZE=2'] if rp['fallback_program'] == 'f3.c' else []}), repo, verif)
            if v2.get('reproduced'):
                v2['output'] = '[state injection did not reproduce: %s]\n' % v.get('output', '')[-300:] + v2.get('output', '')
                return v2
        return v
    return {'ran': False, 'reproduced': False, 'output': 'unknown replay kind %r' % kind}


_ARRAYS = ('h_cmds', 'h_vars', 'h_names', 'h_descr', 'h_vnames', 'h_grp', 'h_grp_ptrs', 'h_buf', 'h_ubuf', 'h_crlf', 'h_vdata', 'g_typed', 'g_oldbuf', 'g_oldubuf')
_STRUCTS = ('h_desc', 'h_io', 'h_mutex', 'h_obj')
_FUNCS = ('e_cmd_write', 'e_cmd_read', 'e_cmd_run', 'e_cmd_test', 'e_var_write', 'e_var_read', 'e_io_read', 'e_io_write', 'e_lock', 'e_unlock')


def _c_value(name, data, binary, width):
    import re
    if name == 'pointer':
        d = data.strip()
        if 'NULL' in d:
            return 'NULL'
        d = re.sub(r'\(\([^()]*\*\)\)', '', d)          # leading casts
        d = re.sub(r'\[(\d+)l\]', r'[\1]', d)
        d = re.sub(r'^\(+|\)+$', '', d) if d.count('(') != d.count(')') else d
        base = re.match(r'^&?([A-Za-z_][A-Za-z_0-9]*)', d)
        if not base:
            return None
        b = base.group(1)
        if b in _FUNCS:
            return b
        if b in _STRUCTS:
            return d if d.startswith('&') else '&' + d
        if b in _ARRAYS:
            return d
        return None
    if binary and width:
        v = int(binary, 2)
        if name in ('integer', 'signedbv') or True:
            return '0x%xULL' % v
    return None


def _implies_to_c(expr):
    # CBMC's A ==> B (weaker than ||, right associative) written as plain C, recursively inside parentheses
    out, i, n = [], 0, len(expr)
    parts, cur, depth = [], '', 0
    while i < n:
        ch = expr[i]
        if ch == '(':
            # find matching paren, transform the inside
            k, d = i + 1, 1
            while k < n and d:
                d += (expr[k] == '(') - (expr[k] == ')')
                k += 1
            cur += '(' + _implies_to_c(expr[i + 1:k - 1]) + ')'
            i = k
            continue
        if expr.startswith('==>', i):
            parts.append(cur)
            cur = ''
            i += 3
            continue
        if ch in '"\'':
            k = i + 1
            while k < n and expr[k] != ch:
                k += 2 if expr[k] == '\\' else 1
            cur += expr[i:k + 1]
            i = k + 1
            continue
        cur += ch
        i += 1
    parts.append(cur)
    res = parts[-1]
    for a in reversed(parts[:-1]):
        res = '(!(%s) || (%s))' % (a, res)
    return res


def _rewrite_old(expr):
    # OLD(e) -> e evaluated on the snapshot of the object and on an empty log
    out, i = '', 0
    while True:
        j = expr.find('OLD(', i)
        if j < 0:
            return out + expr[i:]
        out += expr[i:j]
        k, depth = j + 4, 1
        while k < len(expr) and depth:
            depth += (expr[k] == '(') - (expr[k] == ')')
            k += 1
        inner = expr[j + 4:k - 1]
        import re
        inner = re.sub(r'\bself\b', '(&g_old)', inner)
        inner = re.sub(r'\bE\.', 'E0.', inner)
        out += '(' + inner + ')'
        i = k


def _r2(doc, repo, verif):
    import re
    steps = doc.get('trace_assignments') or []
    if not steps:
        return {'ran': False, 'reproduced': False, 'output': 'no counterexample trace recorded for this violation'}
    pre_funcs = ('h_build_descriptor', 'h_build_object', 'h_reset_logs', 'harness', 'h_fill_str', 'h_apply_choices')
    state = {}
    envlog = {}
    for lhs, name, data, binary, width, func in steps:
        lhs2 = re.sub(r'\[(\d+)l\]', r'[\1]', lhs)
        if lhs2.startswith(('E.', 'EL.')):
            if func.startswith('e_'):
                envlog[lhs2] = (name, data, binary, width)
            continue
        if func in pre_funcs and re.match(r'^(h_ix|h_obj|h_cmds|h_vars|h_vdata|h_names|h_descr|h_vnames|h_grp|h_desc|h_buf|h_ubuf|g_typed|g_api_cmd|g_api_name|g_api_int|g_w|g_k|g_j)\b', lhs2):
            if '.$pad' in lhs2 or lhs2.endswith(('at_lock', 'at_unlock', 'in_cs')):
                continue
            state[lhs2] = (name, data, binary, width)
    lines = []
    skipped = 0
    for lhs, (name, data, binary, width) in list(state.items()) + [(k, v) for k, v in envlog.items() if re.match(r'^(E\.(rd_avail|rd_ch|wr_ok|h_ret|v_ret|in_event)|EL\.(lock_ret|unlock_ret))$', k)]:
        cv = _c_value(name, data, binary, width)
        if cv is None or name in ('struct', 'array', 'pointer', 'unknown'):
            skipped += (name != 'pointer' and name != 'unknown')   # pointers are rebuilt from the injected choice indices
            continue
        lines.append('        %s = (__typeof__(%s))(%s);' % (lhs, lhs, cv))
    expr = doc.get('clause_text', '')
    m = re.search(r'__CPROVER_ensures\((.*)\)\s*$', expr.strip())
    if not m:
        return {'ran': False, 'reproduced': False, 'output': 'failed obligation is not a contract clause (memory-safety / frame obligations are replayed by running the step under ASan only)', 'recipe': 'state injection'} if False else _r2_run(doc, repo, verif, lines, '1', skipped)
    return _r2_run(doc, repo, verif, lines, _implies_to_c(_rewrite_old(m.group(1))), skipped)


def _r2_run(doc, repo, verif, lines, clause, skipped):
    d = tempfile.mkdtemp(prefix='cat_r2.', dir='/var/tmp')
    try:
        open(os.path.join(d, 'native_state.inc'), 'w').write('\n'.join(lines) + '\n')
        open(os.path.join(d, 'native_clause.inc'), 'w').write(clause + '\n')
        fn = doc.get('enforce') or 'cat_service'
        defs = ['NATIVE_REPLAY', 'NATIVE_FN_' + fn] + [x for x in doc.get('job_defines', []) if not x.startswith(('JOB_', 'API_CALL'))]
        call = [x for x in doc.get('job_defines', []) if x.startswith('API_CALL=')]
        if call:
            if fn in ('cat_get_processed_command', 'cat_search_command_by_name', 'cat_search_command_group_by_name', 'cat_search_variable_by_name', 'cat_init'):
                return {'ran': False, 'reproduced': False, 'output': 'state injection is not implemented for pointer-returning / initialising API functions', 'recipe': 'state injection'}
            defs = [x for x in defs if not x.startswith('NATIVE_FN_')] + ['NATIVE_CALL=' + call[0][len('API_CALL='):]]
            # the clause names the contract's parameters; bind each to the argument expression of the recorded call
            try:
                import re as _re
                callx = call[0][len('API_CALL='):]
                args, depth, cur = [], 0, ''
                for ch in callx[callx.index('(') + 1:callx.rindex(')')]:
                    if ch == ',' and depth == 0:
                        args.append(cur); cur = ''
                    else:
                        depth += (ch == '(') - (ch == ')'); cur += ch
                args.append(cur)
                decl = _re.search(r'\b' + fn + r'\(([^)]*)\)', open(os.path.join(verif, 'contracts', 'api_contracts.h')).read())
                params = [_re.findall(r'[A-Za-z_]\w*', x)[-1] for x in decl.group(1).split(',')] if decl else []
                for prm, arg in list(zip(params, args))[1:]:      # the first parameter is the object (self)
                    clause = _re.sub(r'(?<![\w.>])' + prm + r'\b', '(' + arg.strip() + ')', clause)
                open(os.path.join(d, 'native_clause.inc'), 'w').write(clause + '\n')
            except Exception:
                pass
        exe = os.path.join(d, 'r2')
        cmd = ['clang', '-g', '-O0', '-fsanitize=address,undefined', '-fno-sanitize-recover=undefined', '-w', '-I' + d, '-I' + os.path.join(repo, 'src'),
               '-I' + os.path.join(verif, 'contracts'), '-I' + os.path.join(verif, 'harness')] + ['-D' + x for x in defs] + ['-DE0=G_ZERO', os.path.join(verif, 'harness', 'l1_native.c'), '-o', exe]
        p = subprocess.run(cmd, stdout=subprocess.PIPE, stderr=subprocess.STDOUT, timeout=120)
        if p.returncode != 0:
            return {'ran': False, 'reproduced': False, 'output': 'native build failed: ' + p.stdout.decode('utf-8', 'replace')[-1200:], 'recipe': 'state injection'}
        p = subprocess.run([exe], stdout=subprocess.PIPE, stderr=subprocess.STDOUT, timeout=60)
        out = p.stdout.decode('utf-8', 'replace')
        return {'ran': True, 'reproduced': p.returncode != 0, 'exit': p.returncode, 'output': ('%d pre-state assignments injected (%d skipped)\n' % (len(lines), skipped)) + out[-2500:],
                'recipe': 'state injection: counterexample pre-state written into the real objects, real %s called with the recorded environment choices, clause re-evaluated natively' % fn}
    except subprocess.TimeoutExpired:
        return {'ran': False, 'reproduced': False, 'output': 'native replay timed out', 'recipe': 'state injection'}
    finally:
        shutil.rmtree(d, ignore_errors=True)


def replay_file(path, repo, verif):
    with open(path) as f:
        doc = json.load(f)
    print('obligation: %s (%s) clause=%s' % (doc.get('obligation'), doc.get('function'), doc.get('clause')))
    print('verifier  : %s' % doc.get('verifier_output'))
    v = try_replay(doc, repo, verif)
    print(v.get('output', ''))
    if v.get('reproduced'):
        print('REPRODUCED on the real code (%s)' % v.get('recipe', ''))
        return 1
    print('not reproduced natively (%s)' % v.get('recipe', 'no recipe'))
    return 0
