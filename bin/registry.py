"""Registry of proof obligations groups ("jobs"): which harness, which function's contract is
enforced, which callees are replaced by their contracts, which properties the job serves."""

TRUSTED_BASE = [
    'CBMC 6.11.0 (goto-cc, goto-instrument --dfcc contract and loop-contract instrumentation, symbolic execution, bit-precise flattening) and the CaDiCaL SAT solver',
    "CBMC's built-in models of memcpy, memset, strlen, strcpy, strncpy, memchr, malloc",
    'assumed contract of snprintf for the six format strings the library uses (contracts/models.h), tested natively against libc, not proved',
    'environment model of the user callbacks (io read/write, handlers, variable callbacks, mutex) in harness/env.h',
    'the induction principle "base + every step preserves Inv => Inv at every API boundary" (DESIGN.md 2.2d), not run by a tool',
    'x86_64 LP64 data model; -DNDEBUG (library asserts compiled out, their conditions appear as contract preconditions)',
]

COMMON_ASSUMPTIONS = [
    'descriptor domain WF: names NUL-terminated, command half capacity >= 6 and >= ceil(commands/4), variable data valid for data_size bytes and aligned, data_size >= 1',
    'callbacks honour max_data_size, leave the response buffer NUL-terminated, do not call cat_service/cat_init re-entrantly; a handler run for an unsolicited event does not return CAT_RETURN_STATE_HOLD (DESIGN.md F7)',
    'machine arithmetic is bit-precise everywhere; the only mathematical object is the saturating Horner ghost (cap 2^40, proved never to wrap)',
]

PER_PROP_ASSUMPTIONS = {}


def assumptions_for(prop):
    return COMMON_ASSUMPTIONS + PER_PROP_ASSUMPTIONS.get(prop, [])


def claimed_properties():
    seen = []
    for j in jobs('quick'):
        for p in j['props']:
            if p not in seen:
                seen.append(p)
    return sorted(seen)


def L0(fn, props, harness=None, loop=False, replace=(), defines=(), expect=(), label='unbounded', timeout=600, replay=None, jid=None, cbmc_flags=(), tiers=('quick', 'thorough')):
    exp = list(expect)
    if loop:
        exp += ['loop_invariant_base', 'loop_invariant_step', 'loop_decreases']
    return {'id': jid or ('L0.' + fn), 'props': list(props), 'harness': harness or ('l0_%s.c' % fn), 'enforce': fn, 'replace': list(replace),
            'loop_contracts': loop, 'defines': list(defines), 'expect': exp + ['postcondition'], 'label': label, 'timeout': timeout,
            'replay': replay, 'cbmc_flags': list(cbmc_flags), 'tiers': list(tiers), 'shape': 'sizes symbolic: command-half capacity 6..4096, shared or separate layout'}


def jobs(tier):
    J = []
    J.append(L0('parse_uint_decimal', ['C03', 'C04'], loop=True, replay={'kind': 'program', 'program': 'f2.c'}))
    J.append(L0('parse_int_decimal', ['C03', 'C04'], loop=True, replay={'kind': 'program', 'program': 'f2.c'}))
    J.append(L0('parse_num_hexadecimal', ['C03', 'C04'], loop=True, replay={'kind': 'program', 'program': 'f2.c'}))
    J.append(L0('validate_uint_range', ['C03', 'C04', 'C08']))
    J.append(L0('validate_int_range', ['C03', 'C04', 'C08']))
    J.append(L0('parse_buffer_hexadecimal', ['C03', 'C05', 'C08'], loop=True))
    J.append(L0('parse_buffer_string', ['C03', 'C05', 'C08'], loop=True))
    return [j for j in J if tier in j['tiers']]
