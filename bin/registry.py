"""Registry of proof obligations groups ("jobs"): which harness, which function's contract is
enforced, which callees are replaced by their contracts, which properties the job serves."""

TRUSTED_BASE = [
    'CBMC 6.11.0 (goto-cc, goto-instrument --dfcc contract and loop-contract instrumentation, symbolic execution, bit-precise flattening) and the CaDiCaL SAT solver',
    "CBMC's built-in models of memcpy, memset, strlen, strcpy, strncpy, memchr, malloc",
    'assumed contract of snprintf for the six format strings the library uses (contracts/models.h), tested natively against libc, not proved',
    'environment model of the user callbacks (io read/write, handlers, variable callbacks, mutex) in harness/env.h',
    'the induction principle "base + every step preserves Inv => Inv at every API boundary" (DESIGN.md 2.2d), not run by a tool',
    'x86_64 LP64 data model; -DNDEBUG (library asserts compiled out, their conditions appear as contract preconditions)',
]

COMMON_ASSUMPTIONS = [
    'descriptor domain WF: names NUL-terminated, command half capacity >= 6 and >= ceil(commands/4), variable data valid for data_size bytes and aligned, data_size >= 1',
    'callbacks honour max_data_size, leave the response buffer NUL-terminated, do not call cat_service/cat_init re-entrantly; a handler run for an unsolicited event does not return CAT_RETURN_STATE_HOLD (DESIGN.md F7)',
    'machine arithmetic is bit-precise everywhere; the only mathematical object is the saturating Horner ghost (cap 2^40, proved never to wrap)',
]

PER_PROP_ASSUMPTIONS = {
    'C01': ['handlers eventually return a terminal code (liveness side, see C15)', 'descriptor flags do not change within a line'],
    'C02': ['descriptor flags do not change within a line', 'command names are not empty'],
    'C07': ['strings hold bytes 0x01-0xFF except CR and are NUL-terminated inside data_size (domain of the statement)'],
    'C09': ['descriptor flags do not change within a line'],
    'C12': ['the composition of the per-step stutter facts into schedule independence (stuttering equivalence) is a pen-and-paper argument'],
    'C15': ['fair environment for the liveness half: input exhausted, every write accepted, handlers return terminal codes, lock and unlock succeed; HOLD excluded',
            'well-foundedness of the variant and "the variant bounds the number of BUSY calls" are the meta-argument'],
    'C16': ['a mutex implementation whose lock/unlock return values mean what cat.h says'],
    'C17': ['no thread interleaving is explored: sequential lock-rule obligations plus the classical theorem that lock-protected accesses are race free and atomic',
            'a correct mutex implementation; memory-model effects are out of scope'],
    'C19': ['implicit-write commands that own variables are excepted, as in the statement'],
}


def assumptions_for(prop):
    return COMMON_ASSUMPTIONS + PER_PROP_ASSUMPTIONS.get(prop, [])


# native replay recipes by clause / function: a sweep program written from the property text for the obligation's
# input class, or the generic state-injection replay (R2) of step and API obligations
SWEEPS = {'parse_int_decimal': 'sweep_decoders.c', 'parse_uint_decimal': 'sweep_decoders.c', 'parse_num_hexadecimal': 'sweep_decoders.c',
          'parse_buffer_hexadecimal': 'sweep_decoders.c', 'parse_buffer_string': 'sweep_decoders.c', 'validate_int_range': 'sweep_decoders.c',
          'validate_uint_range': 'sweep_decoders.c', 'is_valid_hex_char': 'sweep_decoders.c', 'is_valid_dec_char': 'sweep_decoders.c', 'convert_hex_char_to_value': 'sweep_decoders.c'}


def replay_recipe(job, rec):
    fn = job.get('enforce') or ''
    if fn in SWEEPS:
        return {'kind': 'program', 'program': SWEEPS[fn], 'defines': []}
    if job.get('harness') in ('l1_step.c', 'l1_api.c'):
        return {'kind': 'r2', 'fallback_program': {'phase-inline': 'f1.c', 'scan-end-none': 'f1.c', 'ok-quiescent': 'f3.c', 'busy-ok-means-idle': 'f4.c', 'list-step': 'f5.c', 'write-dispatch': 'f6.c'}.get(rec.get('tag'))}
    return job.get('replay')


def claimed_properties():
    seen = []
    for j in jobs('quick'):
        for p in j['props']:
            if p not in seen:
                seen.append(p)
    return sorted(seen)


def L0(fn, props, harness=None, loop=False, replace=(), defines=(), expect=(), label='unbounded', timeout=1800, replay=None, jid=None, cbmc_flags=(), tiers=('quick', 'thorough')):
    exp = list(expect)
    if loop:
        exp += ['loop_invariant_base', 'loop_invariant_step', 'loop_decreases']
    twin = None
    if loop:
        # concrete-search twin: no loop contracts, small capacity, loops unwound without unwinding assertions; a failed
        # ensures clause there is a genuine counterexample with a concrete text; used when the loop-contract proof unit
        # no longer compiles (a local named by an invariant disappeared) and to extract failing inputs
        twin = {'defines': ['V_TWIN', 'MAX_CAP=12', 'MAX_DS=4'], 'cbmc_flags': ['--unwind', '10', '--no-unwinding-assertions']}
    return {'twin': twin, 'id': jid or ('L0.' + fn), 'props': list(props), 'harness': harness or ('l0_%s.c' % fn), 'enforce': fn, 'replace': list(replace),
            'loop_contracts': loop, 'defines': list(defines) + (['V_LOOP_' + fn] if loop else []), 'expect': exp + ['postcondition'], 'label': label, 'timeout': timeout,
            'replay': replay, 'cbmc_flags': list(cbmc_flags), 'tiers': list(tiers), 'shape': 'sizes symbolic: command-half capacity 6..4096, shared or separate layout'}


AT_STATES = ['ERROR', 'IDLE', 'PARSE_PREFIX', 'PARSE_COMMAND_CHAR', 'UPDATE_COMMAND_STATE', 'WAIT_READ_ACKNOWLEDGE', 'SEARCH_COMMAND',
             'COMMAND_FOUND', 'COMMAND_NOT_FOUND', 'PARSE_COMMAND_ARGS', 'PARSE_WRITE_ARGS', 'FORMAT_READ_ARGS', 'WAIT_TEST_ACKNOWLEDGE',
             'FORMAT_TEST_ARGS', 'WRITE_LOOP', 'READ_LOOP', 'TEST_LOOP', 'RUN_LOOP', 'HOLD', 'FLUSH_IO_WRITE_WAIT', 'FLUSH_IO_WRITE',
             'AFTER_FLUSH_RESET', 'AFTER_FLUSH_OK', 'AFTER_FLUSH_FORMAT_READ_ARGS', 'AFTER_FLUSH_FORMAT_TEST_ARGS', 'PRINT_CMD']
UN_STATES = ['IDLE', 'FORMAT_READ_ARGS', 'FORMAT_TEST_ARGS', 'READ_LOOP', 'TEST_LOOP', 'FLUSH_IO_WRITE_WAIT', 'FLUSH_IO_WRITE',
             'AFTER_FLUSH_RESET', 'AFTER_FLUSH_OK', 'AFTER_FLUSH_FORMAT_READ_ARGS', 'AFTER_FLUSH_FORMAT_TEST_ARGS']
L1_PROPS = ['C01', 'C02', 'C03', 'C06', 'C08', 'C09', 'C19', 'C10', 'C11', 'C12', 'C14', 'C15', 'C16', 'C18', 'C20']
LEAF_REPLACE = ['parse_int_decimal', 'parse_uint_decimal', 'parse_num_hexadecimal', 'parse_buffer_hexadecimal', 'parse_buffer_string',
                'validate_int_range', 'validate_uint_range']
SHAPES = {
    'sh16': {'defines': ['H_BUFSZ=16', 'H_SHARED=1'], 'text': 'shared working buffer of 16 bytes (halves 8/8)', 'unwind': 18},
    'sh32': {'defines': ['H_BUFSZ=32', 'H_SHARED=1'], 'text': 'shared working buffer of 32 bytes (halves 16/16)', 'unwind': 34},
    'sep40': {'defines': ['H_BUFSZ=40', 'H_SHARED=0', 'H_UBUFSZ=6'], 'text': 'command buffer 40 bytes, separate event buffer 6 bytes', 'unwind': 42},
    'sh17': {'defines': ['H_BUFSZ=17', 'H_SHARED=1'], 'text': 'shared working buffer of 17 bytes (odd: halves 8/8, one spare byte)', 'unwind': 19},
    'sep8u40': {'defines': ['H_BUFSZ=8', 'H_SHARED=0', 'H_UBUFSZ=40', 'X_MAXTXT=40'], 'text': 'command buffer 8 bytes, separate event buffer 40 bytes', 'unwind': 44},
    'sep8': {'defines': ['H_BUFSZ=8', 'H_SHARED=0', 'H_UBUFSZ=6'], 'text': 'command buffer 8 bytes, separate event buffer 6 bytes', 'unwind': 14},
}
SHAPE_TEXT = '; pool of 3 commands in 1-2 groups, <= 2 variables each (all types/access modes, data_size 1..4), names <= 2 bytes over all byte values, every flag and handler subset, event queue capacity %d; all object scalars symbolic under Inv'


def L1(kind, state, shape, ring=1, tiers=('quick', 'thorough'), timeout=1800, props=None):
    sh = SHAPES[shape]
    if kind == 'at':
        defs = ['JOB_STATE=CAT_STATE_' + state]
        enforce, replace = 'cat_service', ['unsolicited_events_service'] + LEAF_REPLACE
        jid = 'L1.%s.%s.N%d' % (state, shape, ring)
    else:
        defs = ['JOB_USTATE=CAT_UNSOLICITED_STATE_' + state]
        enforce, replace = 'unsolicited_events_service', list(LEAF_REPLACE)
        jid = 'L1u.%s.%s.N%d' % (state, shape, ring)
    base = list(props or L1_PROPS)
    if props is None:
        # steps whose clauses carry the argument-storing and round-trip properties, and the event machine for the queue property
        extra = {'PARSE_COMMAND_ARGS': ['C04', 'C05'], 'PARSE_WRITE_ARGS': ['C04', 'C05', 'C07'], 'FORMAT_READ_ARGS': ['C07']}.get(state, []) if kind == 'at' else ['C13']
        base += [p for p in extra if p not in base]
    return {'id': jid, 'props': base, 'harness': 'l1_step.c', 'enforce': enforce, 'replace': replace, 'loop_contracts': False,
            'defines': defs + sh['defines'] + ['CAT_UNSOLICITED_CMD_BUFFER_SIZE=%d' % ring], 'expect': ['postcondition'], 'label': 'shape-bounded',
            'timeout': 2700 if state == 'PRINT_CMD' else timeout, 'replay': None, 'cbmc_flags': ['--unwind', str(sh['unwind']), '--unwinding-assertions', '--object-bits', '10'], 'tiers': list(tiers),
            'shape': sh['text'] + SHAPE_TEXT % ring}


API_FUNCS = [
    ('cat_is_busy', 'cat_is_busy(&h_obj)', ['C16', 'C17', 'C18', 'C03']),
    ('cat_is_hold', 'cat_is_hold(&h_obj)', ['C14', 'C16', 'C17', 'C18', 'C03']),
    ('cat_hold_exit', 'cat_hold_exit(&h_obj,(cat_status)A_INT)', ['C13', 'C14', 'C16', 'C17', 'C03']),
    ('cat_is_unsolicited_buffer_full', 'cat_is_unsolicited_buffer_full(&h_obj)', ['C13', 'C16', 'C17', 'C03']),
    ('cat_trigger_unsolicited_event', 'cat_trigger_unsolicited_event(&h_obj,A_CMD,(cat_cmd_type)A_INT)', ['C13', 'C16', 'C17', 'C03']),
    ('cat_trigger_unsolicited_read', 'cat_trigger_unsolicited_read(&h_obj,A_CMD)', ['C13', 'C16', 'C17', 'C03']),
    ('cat_trigger_unsolicited_test', 'cat_trigger_unsolicited_test(&h_obj,A_CMD)', ['C13', 'C16', 'C17', 'C03']),
    ('cat_is_unsolicited_event_buffered', 'cat_is_unsolicited_event_buffered(&h_obj,A_CMD,(cat_cmd_type)A_INT)', ['C13', 'C03']),
    ('cat_init', 'cat_init(&h_obj,&h_desc,&h_io,A_INT?&h_mutex:NULL)', ['C01', 'C11', 'C13', 'C14', 'C15', 'C18', 'C20', 'C03']),
    ('cat_search_command_by_name', 'cat_search_command_by_name(&h_obj,A_NAME)', ['C03']),
    ('cat_search_command_group_by_name', 'cat_search_command_group_by_name(&h_obj,A_NAME)', ['C03']),
    ('cat_search_variable_by_name', 'cat_search_variable_by_name(&h_obj,A_CMD,A_NAME)', ['C03']),
    ('cat_get_processed_command', 'cat_get_processed_command(&h_obj,(cat_fsm_type)A_INT)', ['C13', 'C03']),
]


def API(fn, call, props, shape='sh16', ring=1, lockrule=False, tiers=('quick', 'thorough')):
    sh = SHAPES[shape]
    defs = ['API_CALL=' + call] + sh['defines'] + ['CAT_UNSOLICITED_CMD_BUFFER_SIZE=%d' % ring] + (['H_LOCKRULE'] if lockrule else [])
    replace = []
    if fn in ('cat_trigger_unsolicited_read', 'cat_trigger_unsolicited_test') and not lockrule:
        replace = []
    return {'id': 'API.%s.%s.N%d%s' % (fn, shape, ring, '.lockrule' if lockrule else ''), 'props': [p for p in props if (p != 'C17' or lockrule) and (p == 'C17' or p == 'C03' or not lockrule)],
            'harness': 'l1_api.c', 'enforce': fn, 'replace': replace, 'loop_contracts': False, 'defines': defs, 'expect': ['postcondition'],
            'label': 'shape-bounded', 'timeout': 600, 'replay': None, 'cbmc_flags': ['--unwind', str(sh['unwind']), '--unwinding-assertions', '--object-bits', '10'],
            'tiers': list(tiers), 'shape': sh['text'] + SHAPE_TEXT % ring + ('; lock() and unlock() rewrite the lock-protected fields under their invariant (lock rule)' if lockrule else '')}


def jobs(tier):
    J = []
    J.append(L0('parse_uint_decimal', ['C03', 'C04'], loop=True, replay={'kind': 'program', 'program': 'f2.c'}))
    J.append(L0('parse_int_decimal', ['C03', 'C04'], loop=True, replay={'kind': 'program', 'program': 'f2.c'}))
    J.append(L0('parse_num_hexadecimal', ['C03', 'C04'], loop=True, replay={'kind': 'program', 'program': 'f2.c'}))
    J.append(L0('validate_uint_range', ['C03', 'C04', 'C08']))
    J.append(L0('validate_int_range', ['C03', 'C04', 'C08']))
    J.append(L0('parse_buffer_hexadecimal', ['C03', 'C05', 'C08'], loop=True, defines=['MAX_CAP=256'], jid='L0.parse_buffer_hexadecimal.cap256'))
    J.append(L0('parse_buffer_string', ['C03', 'C05', 'C08'], loop=True))
    J.append(L0('print_nstring_to_buf', ['C03', 'C19'], defines=['MAX_CAP=64']))
    for k, f in enumerate(['%d', '%u', '%02X', '0x%02X', '0x%04X', '0x%08X']):
        J.append(L0('print_format_num', ['C03', 'C07', 'C08', 'C19'], defines=['MAX_CAP=64', 'FMT_STR="%s"' % f], cbmc_flags=['--unwind', '14', '--unwinding-assertions'], jid='L0.print_format_num.fmt%d' % k))
    for fn in ('format_int_decimal', 'format_uint_decimal', 'format_num_hexadecimal'):
        J.append(L0(fn, ['C03', 'C07'], defines=['MAX_CAP=64', 'PF_LIGHT'], replace=['print_format_num'], cbmc_flags=['--unwind', '14', '--unwinding-assertions', '--object-bits', '10']))
    j = L0('format_info_type', ['C19', 'C03'], defines=['MAX_CAP=48', 'FIX_FSM_NONE'], cbmc_flags=['--unwind', '50', '--unwinding-assertions', '--object-bits', '10'], timeout=2400)
    j['shape'] = 'capacity 6..48 symbolic, variable names up to 12 bytes over all byte values, every type x width x access, both machines'
    J.append(j)
    J.append(L0('print_string_to_buf', ['C03', 'C19'], defines=['MAX_CAP=64'], replace=['print_nstring_to_buf'], cbmc_flags=['--unwind', '12', '--unwinding-assertions']))
    # buffer formatters under loop contracts: one job per machine (and per layout for the event machine), so that the conditional frames fold
    for fn, repl in (('format_buffer_hexadecimal', ['print_format_num']), ('format_buffer_string', ['print_string_to_buf', 'print_nstring_to_buf'])):
        for tag, extra in (('at', ['FIX_FSM=0']), ('ev_shared', ['FIX_FSM=1', 'FIX_SHARED=1']), ('ev_separate', ['FIX_FSM=1', 'FIX_SHARED=0'])):
            j = L0(fn, ['C03', 'C07', 'C08'], loop=True, defines=['MAX_CAP=256', 'MAX_DS=64', 'PF_LIGHT'] + extra, replace=repl, cbmc_flags=['--unwind', '14', '--unwinding-assertions', '--object-bits', '10'], jid='L0.%s.%s' % (fn, tag))
            j['shape'] = 'capacity 6..256 symbolic, data_size 1..64 symbolic, machine/layout fixed per job'
            J.append(j)
    for name, t, numeric in (('int', 'CAT_VAR_INT_DEC', True), ('uint', 'CAT_VAR_UINT_DEC', True), ('hex', 'CAT_VAR_NUM_HEX', True), ('bufhex', 'CAT_VAR_BUF_HEX', False), ('string', 'CAT_VAR_BUF_STRING', False)):
        for wo in (False, True):
            ds = 4 if numeric else (16 if name == 'bufhex' else 8)
            cap = 24 if numeric else (40 if name == 'bufhex' else 24)
            J.append({'id': 'L2.%s_%s' % ('writeonly' if wo else 'roundtrip', name), 'props': ['C08', 'C03'] if wo else ['C07', 'C03'], 'harness': 'l2_roundtrip.c', 'dfcc': False,
                      'function': 'format_*/parse_* (%s)' % name, 'replace': [], 'loop_contracts': False,
                      'defines': ['RT_TYPE=' + t, 'RT_DS=%d' % ds, 'RT_CAP=%d' % cap] + (['RT_WRITE_ONLY'] if wo else []), 'expect': [],
                      'label': 'unbounded' if numeric else 'bounded', 'timeout': 900, 'replay': None,
                      'cbmc_flags': ['--unwind', str(cap + 2), '--unwinding-assertions'], 'tiers': ['quick', 'thorough'],
                      'shape': ('all bit patterns of all three widths; text loops bounded by the text width, unwinding assertions on (complete)' if numeric else 'data_size <= %d (BOUNDED stand-in), all byte contents' % ds) + '; capacity %d' % cap})
    # thorough tier: the same composition lemmas at larger bounds (still BOUNDED stand-ins, reported separately)
    for name, t, ds, cap in (('bufhex', 'CAT_VAR_BUF_HEX', 24, 56), ('string', 'CAT_VAR_BUF_STRING', 12, 32)):
        J.append({'id': 'L2.roundtrip_%s.ds%d' % (name, ds), 'props': ['C07', 'C03'], 'harness': 'l2_roundtrip.c', 'dfcc': False,
                  'function': 'format_*/parse_* (%s)' % name, 'replace': [], 'loop_contracts': False,
                  'defines': ['RT_TYPE=' + t, 'RT_DS=%d' % ds, 'RT_CAP=%d' % cap], 'expect': [],
                  'label': 'bounded', 'timeout': 3000, 'replay': None,
                  'cbmc_flags': ['--unwind', str(cap + 2), '--unwinding-assertions'], 'tiers': ['thorough'],
                  'shape': 'data_size <= %d (BOUNDED stand-in), all byte contents; capacity %d' % (ds, cap)})
    J.append({'id': 'L2.string_fills_data_size', 'props': ['C03', 'C07'], 'harness': 'l2_roundtrip.c', 'dfcc': False, 'function': 'format_buffer_string', 'replace': [], 'loop_contracts': False,
              'defines': ['RT_TYPE=CAT_VAR_BUF_STRING', 'RT_DS=4', 'RT_CAP=24', 'RT_UNTERMINATED'], 'expect': [], 'label': 'bounded', 'timeout': 900, 'replay': None,
              'cbmc_flags': ['--unwind', '26', '--unwinding-assertions'], 'tiers': ['quick', 'thorough'], 'shape': 'data_size <= 4 (BOUNDED stand-in), storage object of exactly data_size bytes, both machines; capacity 24'})
    for fn, props, repl in (('to_upper', ['C02', 'C03'], []), ('is_valid_cmd_name_char', ['C02', 'C03'], []), ('is_valid_dec_char', ['C04', 'C03'], []),
                            ('is_valid_hex_char', ['C04', 'C05', 'C03'], []), ('convert_hex_char_to_value', ['C04', 'C05', 'C03'], []),
                            ('get_cmd_state', ['C02', 'C09', 'C03'], ['is_command_disable']), ('set_cmd_state', ['C02', 'C03'], []),
                            ('search_command', ['C01', 'C02', 'C03'], ['get_cmd_state', 'get_command_by_index'])):
        j = L0(fn, props, harness='l0_small.c', defines=['SMALL_' + fn], replace=repl)
        j['shape'] = 'all 256 character values / any table size up to 4 x capacity, capacity 6..4096 symbolic'
        J.append(j)
    J.append({'id': 'L0.set_cmd_state.plain', 'props': ['C02', 'C03'], 'harness': '../twins/l0_lanes_plain.c', 'extra_inputs': ['twins/l0_lanes_plain.c'], 'dfcc': False,
              'function': 'set_cmd_state', 'replace': [], 'loop_contracts': False, 'defines': ['MAX_CAP=4096'], 'expect': [], 'label': 'unbounded', 'timeout': 600, 'replay': None,
              'cbmc_flags': [], 'tiers': ['quick', 'thorough'],
              'shape': 'contract-free twin of the lane leaf: real set_cmd_state, lanes read back in the harness; capacity 6..4096 symbolic, any index, both layouts (loop-free, complete)'})
    J.append({'id': 'L0.get_new_line_chars', 'props': ['C11', 'C20', 'C01', 'C03'], 'harness': 'l0_get_new_line_chars.c', 'dfcc': False, 'function': 'get_new_line_chars', 'replace': [],
              'loop_contracts': False, 'defines': ['V_NO_CRLF_ASSUME'], 'expect': [], 'label': 'unbounded', 'timeout': 120, 'replay': None, 'cbmc_flags': [], 'tiers': ['quick', 'thorough'],
              'shape': 'no dfcc: real static initialiser'})
    for fn, extra in (('get_command_by_index', []), ('is_command_disable', ['T_DISABLE'])):
        j = L0(fn, ['C02', 'C09', 'C03'], harness='l0_table.c', defines=extra, label='shape-bounded', cbmc_flags=['--unwind', '14', '--unwinding-assertions'])
        j['shape'] = 'up to 4 groups of 1..3 commands each, every disable-flag combination, every index'
        J.append(j)
    for st in AT_STATES:
        J.append(L1('at', st, 'sh16'))
    for st in UN_STATES:
        J.append(L1('un', st, 'sh16'))
        J.append(L1('un', st, 'sep8'))      # halves of different capacity (command 8, event 6)
    for st in ('READ_LOOP', 'TEST_LOOP', 'FORMAT_READ_ARGS', 'PARSE_COMMAND_ARGS'):
        J.append(L1('at', st, 'sep8'))
    # larger capacities so that the TEST response / list lines actually fit: text-level clauses of C19 (and safety)
    for st in ('IDLE', 'FORMAT_TEST_ARGS', 'AFTER_FLUSH_FORMAT_TEST_ARGS'):
        J.append(L1('un', st, 'sep8u40', props=['C19', 'C03']))
    J.append(L1('at', 'PRINT_CMD', 'sh32', props=['C19', 'C03']))
    for st in ('FORMAT_TEST_ARGS', 'WAIT_TEST_ACKNOWLEDGE', 'AFTER_FLUSH_FORMAT_TEST_ARGS'):
        J.append(L1('at', st, 'sep40', props=['C19', 'C03']))
    # event queue of capacity 2 (and 3, 8 in the thorough tier): the states that can return OK, and the idle event machine
    for st in ('ERROR', 'IDLE', 'PARSE_PREFIX', 'PARSE_COMMAND_CHAR', 'WAIT_READ_ACKNOWLEDGE', 'PARSE_COMMAND_ARGS', 'WAIT_TEST_ACKNOWLEDGE'):
        J.append(L1('at', st, 'sh16', ring=2, props=['C13', 'C15', 'C03']))
        J.append(L1('at', st, 'sh16', ring=3, props=['C13', 'C15', 'C03'], tiers=('thorough',)))
    for st in UN_STATES:
        J.append(L1('un', st, 'sh16', ring=2, props=['C13', 'C15', 'C03']))
        J.append(L1('un', st, 'sh16', ring=3, props=['C13', 'C15', 'C03'], tiers=('thorough',)))
        J.append(L1('un', st, 'sh16', ring=8, props=['C13', 'C15', 'C03'], tiers=('thorough',)))
    for fn, call, props in API_FUNCS:
        if 'C13' in props:
            J.append(API(fn, call, props, ring=8, tiers=('thorough',)))
    for st in AT_STATES:
        J.append(L1('at', st, 'sh17', tiers=('quick', 'thorough') if st in ('READ_LOOP', 'TEST_LOOP', 'PARSE_COMMAND_ARGS') else ('thorough',)))
    for st in UN_STATES:
        J.append(L1('un', st, 'sh17', tiers=('thorough',)))
    for st in AT_STATES:
        if st not in ('READ_LOOP', 'TEST_LOOP', 'FORMAT_READ_ARGS', 'PARSE_COMMAND_ARGS'):
            J.append(L1('at', st, 'sep8', tiers=('thorough',)))
    for fn, call, props in API_FUNCS:
        for ring in ((1, 2, 3) if props != ['C03'] else (1,)):
            J.append(API(fn, call, props, ring=ring))
            if 'C17' in props:
                J.append(API(fn, call, props, ring=ring, lockrule=True))
    return [j for j in J if tier in j['tiers']]
