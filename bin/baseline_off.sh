#!/bin/sh
# Build /repo with the verification guard OFF (plain upstream build flags) in a scratch
# directory outside /repo and /verif, run the 30-case ctest suite, remove the scratch directory.
set -e
d=$(mktemp -d /var/tmp/cat_baseline_off.XXXXXX)
trap 'rm -rf "$d"' EXIT INT TERM
cmake -G Ninja -S /repo -B "$d" > "$d/cmake.log" 2>&1 || { cat "$d/cmake.log"; exit 2; }
cmake --build "$d" > "$d/build.log" 2>&1 || { cat "$d/build.log"; exit 2; }
ctest --test-dir "$d" -j8 --timeout 900
